// C14 — the WebSocket reader enforces RFC 6455 framing rules and the read limit.
// Explicit-state enumeration (E2): every frame sequence up to depth D over an
// abstract frame alphabet, extended only while a reference RFC 6455 receiver
// (ref/wsref.Receiver) is still running, each replayed on a fresh real Conn for
// both roles, with and without negotiated compression; read-limit family over
// every fragmentation; every cut offset of the valid sequences.
package main

import (
	"bytes"
	"encoding/binary"
	"encoding/json"
	"fmt"
	"io"
	"sort"
	"strings"

	"time"

	"github.com/ossrs/go-oryx-lib/verifshim/vtime"
	"github.com/ossrs/go-oryx-lib/websocket"

	"verif/hl"
	"verif/ref/wsref"
	"verif/wsx"
)

// FD is an abstract frame.
type FD struct {
	Op    byte   `json:"op"`
	Fin   bool   `json:"fin"`
	Rsv   byte   `json:"rsv"` // bit0 RSV1, bit1 RSV2, bit2 RSV3
	Wrong bool   `json:"wrongmask"`
	Len   string `json:"len"`             // "0","1","125","126","65536","h63m1","h63","h64m1"
	Close string `json:"close,omitempty"` // close payload variant (op 8)
}

func (f FD) String() string {
	s := fmt.Sprintf("op%d", f.Op)
	if f.Fin {
		s += "F"
	}
	if f.Rsv != 0 {
		s += fmt.Sprintf("/rsv%d", f.Rsv)
	}
	if f.Wrong {
		s += "/wrongmask"
	}
	if f.Op == 8 {
		return s + "/close:" + f.Close
	}
	return s + "/len:" + f.Len
}

var lens = []string{"0", "1", "125", "126", "65536", "h63m1", "h63", "h64m1"}
var closes = []string{"", "1b", "1000", "1000utf8", "1000bad", "999", "1005", "1006", "1015", "2999", "3000", "4999", "5000"}

func closePayload(v string) []byte {
	code := func(c int, text string) []byte {
		b := make([]byte, 2)
		binary.BigEndian.PutUint16(b, uint16(c))
		return append(b, text...)
	}
	switch v {
	case "":
		return nil
	case "1b":
		return []byte{0x03}
	case "1000utf8":
		return code(1000, "bye \xe2\x82\xac")
	case "1000bad":
		return code(1000, "bad \xff\xfe")
	}
	var c int
	fmt.Sscanf(v, "%d", &c)
	return code(c, "")
}

var injected = []byte("INJECTED")

// materialise builds the wire frame for a receiver with the given role.
// compression says whether RSV1 data frames carry a deflate stream.
func materialise(f FD, receiverIsServer bool, compression bool, salt byte) wsref.Frame {
	fr := wsref.Frame{Fin: f.Fin, Opcode: f.Op, Rsv1: f.Rsv&1 != 0, Rsv2: f.Rsv&2 != 0, Rsv3: f.Rsv&4 != 0}
	fr.Masked = receiverIsServer != f.Wrong
	fr.Key = [4]byte{0x11 + salt, 0x22, 0x33, 0x44}
	if f.Op == 8 {
		fr.Payload = closePayload(f.Close)
		fr.Len = uint64(len(fr.Payload))
		return fr
	}
	switch f.Len {
	case "h63m1", "h63", "h64m1":
		fr.LenForm = 64
		fr.Len = map[string]uint64{"h63m1": 1<<63 - 1, "h63": 1 << 63, "h64m1": 1<<64 - 1}[f.Len]
		// what follows on the wire is a complete small text frame, so a reader that accepts the giant
		// length as an empty frame goes on to deliver it
		fr.Payload = nil
		return fr
	}
	var n int
	fmt.Sscanf(f.Len, "%d", &n)
	fr.Payload = hl.Pattern(n, salt)
	if fr.Rsv1 && compression && (f.Op == 1 || f.Op == 2) && f.Fin {
		fr.Payload = wsref.Deflate(hl.Pattern(n, salt), 1)
	}
	fr.Len = uint64(len(fr.Payload))
	return fr
}

func wireOf(fr wsref.Frame, receiverIsServer bool) []byte {
	b := fr.Bytes()
	if fr.LenForm == 64 && fr.Len >= 1<<62 {
		tail := wsref.Frame{Fin: true, Opcode: 1, Masked: receiverIsServer, Key: [4]byte{9, 9, 9, 9}, Len: uint64(len(injected)), Payload: injected}
		b = append(b, tail.Bytes()...)
	}
	return b
}

type cfg struct {
	Server      bool  `json:"server"`
	Compression bool  `json:"compression"`
	Limit       int64 `json:"limit"`
}

type seqCase struct {
	Part   string `json:"part"`
	Cfg    cfg    `json:"cfg"`
	Frames []FD   `json:"frames"`
	Cut    int    `json:"cut"` // -1 none
	Sizes  []int  `json:"sizes,omitempty"`
}

type delivered struct {
	Type    int
	Payload []byte
}

// readAll reads messages through NextReader until the first error, then tries once more.
// handed = the largest number of payload bytes of one message handed to the application,
// including a message whose reading ended in an error.
func readAll(cf cfg, wire []byte, max int) (msgs []delivered, firstErr error, secondErr error, out []byte, pan string) {
	msgs, firstErr, secondErr, out, pan, _ = readAll2(cf, wire, max)
	return
}

func readAll2(cf cfg, wire []byte, max int) (msgs []delivered, firstErr error, secondErr error, out []byte, pan string, handed int) {
	mem := &wsx.Conn{In: wire}
	p, msg, st := hl.TryStack(func() {
		ws := websocket.VerifNewConn(mem, cf.Server, 128, 128, cf.Compression)
		if cf.Limit > 0 {
			ws.SetReadLimit(cf.Limit)
		}
		buf := make([]byte, 512)
		for i := 0; i < max; i++ {
			mt, r, err := ws.NextReader()
			if err != nil {
				firstErr = err
				_, _, secondErr = ws.ReadMessage()
				return
			}
			var b []byte
			for {
				n, e := r.Read(buf)
				b = append(b, buf[:n]...)
				if len(b) > handed {
					handed = len(b)
				}
				if e == io.EOF {
					break
				}
				if e != nil {
					firstErr = e
					_, _, secondErr = ws.ReadMessage()
					return
				}
			}
			msgs = append(msgs, delivered{mt, b})
		}
	})
	if p {
		pan = hl.PanicSite(st) + ": " + msg
	}
	return msgs, firstErr, secondErr, mem.Out, pan, handed
}

type harness struct {
	c   *hl.Ctx
	idx int
	// confirmation of failing cases (see confirmed)
	probing  bool
	pendKey  string
	pendWhat string
	pendCase interface{}
}

// violation notes the failing clause of the case being judged; confirmed decides whether it is reported.
func (h *harness) violation(key, what string, cs interface{}) {
	if h.probing {
		h.pendKey = key
		return
	}
	h.pendKey, h.pendWhat, h.pendCase = key, what, cs
}

// confirmed judges one case (judge runs the real Conn and calls h.violation at most once). The library's
// control-frame write path (WriteControl, used for every reply of the reader) carries a 1 s wall-clock
// deadline, so a worker process descheduled for longer than that loses a reply. The cases are otherwise
// deterministic: a failing case is therefore judged twice more and reported when it fails again; when a
// re-run holds, the outcome is counted as transient and the case as held.
func (h *harness) confirmed(judge func()) {
	h.pendKey = ""
	judge()
	if h.pendKey == "" {
		return
	}
	key, what, cs := h.pendKey, h.pendWhat, h.pendCase
	h.probing = true
	held := false
	for i := 0; i < 2; i++ {
		h.pendKey = ""
		judge()
		if h.pendKey == "" {
			held = true
		}
	}
	h.probing = false
	h.pendKey = ""
	if held {
		h.c.Add("transient_outcomes", 1)
		return
	}
	h.c.Violation(key, what, cs)
}

// evaluate runs one frame sequence; ref is the reference receiver after the whole sequence,
// giant = the last frame declared 2^63-1 (valid length, payload cannot follow).
func (h *harness) evaluate(cf cfg, seq []FD, frames []wsref.Frame, ref *wsref.Receiver, giantCut bool) {
	h.confirmed(func() { h.evaluate1(cf, seq, frames, ref, giantCut) })
}

func (h *harness) evaluate1(cf cfg, seq []FD, frames []wsref.Frame, ref *wsref.Receiver, giantCut bool) {
	c := h.c
	if !h.probing {
		c.Eval()
		c.Add("transitions", int64(len(seq)))
		c.Add("traces_validated_against_impl", 1)
	}
	var wire []byte
	for _, fr := range frames {
		wire = append(wire, wireOf(fr, cf.Server)...)
	}
	msgs, err1, err2, out, pan := readAll(cf, wire, len(seq)+3)
	cs := seqCase{Part: "seq", Cfg: cf, Frames: seq, Cut: -1}
	var names []string
	for _, f := range seq {
		names = append(names, f.String())
	}
	desc := fmt.Sprintf("receiver role server=%v compression=%v; frames [%s]; wire %s", cf.Server, cf.Compression, strings.Join(names, " "), hl.Hex(wire))
	if pan != "" {
		h.violation("panic/"+strings.SplitN(pan, ":", 2)[0], "reader panicked: "+pan+"; "+desc, cs)
		return
	}
	last := seq[len(seq)-1]
	feature := func() string {
		if ref.Failed != "" {
			return strings.ReplaceAll(ref.Failed, " ", "-")
		}
		if giantCut {
			return "giant-length-then-cut"
		}
		if ref.Closed {
			return "valid-close"
		}
		return "valid"
	}()
	// delivered messages: exactly the reference's, up to the first violation
	for i, m := range msgs {
		if i >= len(ref.Delivered) {
			h.violation("delivered-extra/"+feature, fmt.Sprintf("message %d {type %d, %d bytes %q} was delivered but a conformant receiver delivers only %d messages (first violation: %q); %s", i, m.Type, len(m.Payload), trunc(m.Payload), len(ref.Delivered), ref.Failed, desc), cs)
			return
		}
		want := ref.Delivered[i]
		wp := want.Payload
		if want.Compressed && cf.Compression {
			var e error
			if wp, e = wsref.Inflate(want.Payload); e != nil {
				panic("reference inflate: " + e.Error())
			}
		}
		if m.Type != int(want.Opcode) || !bytes.Equal(m.Payload, wp) {
			h.violation("delivered-wrong/"+feature, fmt.Sprintf("message %d delivered as {type %d, %d bytes}, a conformant receiver delivers {type %d, %d bytes}; %s", i, m.Type, len(m.Payload), want.Opcode, len(wp), desc), cs)
			return
		}
	}
	if len(msgs) < len(ref.Delivered) {
		h.violation("delivered-missing/"+feature, fmt.Sprintf("%d messages delivered, a conformant receiver delivers %d (then: err=%v); %s", len(msgs), len(ref.Delivered), err1, desc), cs)
		return
	}
	if err1 == nil {
		h.violation("no-error/"+feature, "reading went on without error past the end of the stream; "+desc, cs)
		return
	}
	if err2 == nil {
		h.violation("error-not-permanent/"+feature, fmt.Sprintf("after the read failed with %v the next read succeeded; %s", err1, desc), cs)
		return
	}
	// what the endpoint wrote back
	of, rest := wsref.ParseAll(out)
	if len(rest) != 0 {
		h.violation("reply-garbage", fmt.Sprintf("the endpoint's replies do not parse as whole frames (%d trailing bytes); %s", len(rest), desc), cs)
		return
	}
	if _, e := wsref.SenderCheck(of, !cf.Server, cf.Compression); e != nil {
		h.violation("reply-invalid", "the endpoint's replies violate the sender rules: "+e.Error()+"; "+desc, cs)
		return
	}
	var pongs [][]byte
	var closeF *wsref.Frame
	for i := range of {
		switch of[i].Opcode {
		case wsref.OpPong:
			if closeF != nil {
				h.violation("reply-after-close", "a pong follows the Close frame; "+desc, cs)
				return
			}
			pongs = append(pongs, of[i].Payload)
		case wsref.OpClose:
			closeF = &of[i]
		default:
			h.violation("reply-unexpected", fmt.Sprintf("unexpected frame %v written by a reader; %s", of[i], desc), cs)
			return
		}
	}
	if len(pongs) != len(ref.Pongs) {
		h.violation("pong-count/"+feature, fmt.Sprintf("%d pongs sent for %d pings received before the end; %s", len(pongs), len(ref.Pongs), desc), cs)
		return
	}
	for i := range pongs {
		if !bytes.Equal(pongs[i], ref.Pongs[i]) {
			h.violation("pong-payload", fmt.Sprintf("pong %d carries %q, the ping carried %q; %s", i, trunc(pongs[i]), trunc(ref.Pongs[i]), desc), cs)
			return
		}
	}
	switch {
	case ref.Failed == "64-bit length with the top bit set":
		// demanded: never accepted (checked above: nothing delivered from it, error, permanent)
	case ref.Failed != "":
		if closeF == nil || len(closeF.Payload) < 2 || binary.BigEndian.Uint16(closeF.Payload) != 1002 {
			h.violation("no-1002-close/"+feature, fmt.Sprintf("rule violation (%s) at frame %d: the read failed (%v) but no Close frame with status 1002 was sent (replies: %v); %s", ref.Failed, ref.FailedAt, err1, of, desc), cs)
			return
		}
	case ref.Closed:
		ce, ok := err1.(*websocket.CloseError)
		if !ok || ce.Code != ref.CloseCode {
			h.violation("close-error", fmt.Sprintf("valid Close (code %d) received: read error is %v (%T); %s", ref.CloseCode, err1, err1, desc), cs)
			return
		}
		if closeF == nil {
			h.violation("close-not-echoed", "valid Close received but no Close frame was sent back; "+desc, cs)
			return
		}
	default:
		// the stream simply ends (between frames, inside a fragmented message, or inside a giant frame): any error
		if closeF != nil && len(closeF.Payload) >= 2 && binary.BigEndian.Uint16(closeF.Payload) == 1002 {
			h.violation("spurious-1002/"+last.String(), fmt.Sprintf("a conformant stream that merely ends was answered with a 1002 Close (err %v); %s", err1, desc), cs)
			return
		}
	}
	c.Nontrivial(fmt.Sprint(cf, names))
	c.Distinct("states", fmt.Sprintf("%v/%s/open=%v/d=%d/p=%d", cf, feature, ref.Open(), len(ref.Delivered), len(ref.Pongs)))
}

func trunc(b []byte) string {
	if len(b) > 24 {
		return string(b[:24]) + "..."
	}
	return string(b)
}

func alphabet(cf cfg) []FD {
	var a []FD
	for _, op := range []byte{1, 2, 0, 9, 10, 3, 11} {
		for _, fin := range []bool{true, false} {
			for _, rsv := range []byte{0, 1, 2, 4} {
				for _, wrong := range []bool{false, true} {
					for _, l := range lens {
						if rsv == 1 && cf.Compression && (op == 0 || op >= 8) {
							continue // RSV1 on continuation/control frames under negotiated compression: not in the alphabet
						}
						if rsv == 1 && cf.Compression && !fin {
							continue // fragmented compressed messages need a real deflate stream split over frames: covered by C13
						}
						a = append(a, FD{Op: op, Fin: fin, Rsv: rsv, Wrong: wrong, Len: l})
					}
				}
			}
		}
	}
	for _, cl := range closes {
		for _, fin := range []bool{true, false} {
			for _, rsv := range []byte{0, 1, 2, 4} {
				for _, wrong := range []bool{false, true} {
					if rsv == 1 && cf.Compression {
						continue
					}
					a = append(a, FD{Op: 8, Fin: fin, Rsv: rsv, Wrong: wrong, Close: cl})
				}
			}
		}
	}
	return a
}

func (h *harness) dfs(cf cfg, alpha []FD, seq []FD, frames []wsref.Frame, ref *wsref.Receiver, depth int) {
	for _, f := range alpha {
		// shard on the second level (the few valid first frames own almost all of the tree)
		if len(seq) == 1 {
			h.idx++
			if !h.c.Mine(h.idx) {
				continue
			}
		}
		fr := materialise(f, cf.Server, cf.Compression, byte(len(seq)))
		r2 := ref.Clone()
		if f.Len == "h63m1" && f.Op != 8 {
			// a valid length whose payload cannot follow: the stream ends inside this frame, nothing of it is delivered
			g := fr
			g.Fin = g.Fin && wsref.IsControl(g.Opcode)
			r2.Frame(g)
		} else {
			r2.Frame(fr)
		}
		if r2.Unjudged {
			continue
		}
		s2 := append(append([]FD{}, seq...), f)
		f2 := append(append([]wsref.Frame{}, frames...), fr)
		giant := r2.Running() && f.Len == "h63m1" && f.Op != 8
		if len(seq) > 0 || h.c.Shard == 0 {
			h.evaluate(cf, s2, f2, r2, giant)
		}
		if r2.Running() && !giant && len(s2) < depth {
			if h.c.Expired() {
				return
			}
			h.dfs(cf, alpha, s2, f2, r2, depth)
		}
	}
}

// ---------------------------------------------------------------- read limit

func (h *harness) limits(cf cfg) {
	c := h.c
	for _, L := range []int64{1, 125, 126, 1000} {
		cl := cf
		cl.Limit = L
		for _, n := range []int{int(L) - 1, int(L), int(L) + 1, int(L) + 200} {
			if n < 0 {
				continue
			}
			// every fragmentation of n bytes into <= 3 frames over cut points {0,1,L-1,L,L+1,n-1,n}
			pts := map[int]bool{}
			for _, p := range []int{0, 1, int(L) - 1, int(L), int(L) + 1, n - 1, n} {
				if p >= 0 && p <= n {
					pts[p] = true
				}
			}
			var ps []int // sorted: every shard must enumerate in the same order
			for p := range pts {
				ps = append(ps, p)
			}
			sort.Ints(ps)
			for _, a := range ps {
				for _, b := range ps {
					if a > b {
						continue
					}
					h.idx++
					if !c.Mine(h.idx) {
						continue
					}
					sizes := []int{a, b - a, n - b}
					h.limitCase(cl, n, sizes)
				}
			}
		}
		// claimed lengths that overflow a signed running total
		h.idx++
		if c.Mine(h.idx) {
			h.overflowCase(cl)
		}
	}
}

func (h *harness) limitCase(cf cfg, n int, sizes []int) {
	c := h.c
	c.Eval()
	c.Add("traces_validated_against_impl", 1)
	payload := hl.Pattern(n, 3)
	var wire []byte
	off := 0
	nf := 0
	for i, s := range sizes {
		if s == 0 && i > 0 && i < len(sizes)-1 {
			// an empty middle fragment is still a frame: keep it
		}
		op := byte(0)
		if nf == 0 {
			op = 2
		}
		fr := wsref.Frame{Fin: i == len(sizes)-1, Opcode: op, Masked: cf.Server, Key: [4]byte{5, 6, 7, 8}, Len: uint64(s), Payload: payload[off : off+s]}
		wire = append(wire, fr.Bytes()...)
		off += s
		nf++
	}
	// a second small message follows: it must be delivered only if the first one was within the limit
	tail := wsref.Frame{Fin: true, Opcode: 1, Masked: cf.Server, Key: [4]byte{1, 1, 1, 1}, Len: 1, Payload: []byte("t")}
	wire = append(wire, tail.Bytes()...)
	msgs, err1, _, _, pan, handed := readAll2(cf, wire, 4)
	cs := seqCase{Part: "limit", Cfg: cf, Sizes: sizes, Cut: -1}
	desc := fmt.Sprintf("limit %d, server=%v, %d-byte binary message fragmented as %v then a 1-byte text message", cf.Limit, cf.Server, n, sizes)
	if pan != "" {
		c.Violation("panic/"+strings.SplitN(pan, ":", 2)[0], "reader panicked: "+pan+"; "+desc, cs)
		return
	}
	if int64(handed) > cf.Limit {
		c.Violation("limit/oversize-delivered", fmt.Sprintf("%d payload bytes of one message were handed to the application; %s", handed, desc), cs)
		return
	}
	if int64(n) > cf.Limit {
		if len(msgs) != 0 || err1 != websocket.ErrReadLimit {
			c.Violation("limit/not-enforced", fmt.Sprintf("delivered %d messages, err=%v; want nothing delivered and ErrReadLimit; %s", len(msgs), err1, desc), cs)
			return
		}
	} else {
		if len(msgs) != 2 || !bytes.Equal(msgs[0].Payload, payload) || string(msgs[1].Payload) != "t" {
			c.Violation("limit/within-limit-lost", fmt.Sprintf("message within the limit not delivered intact (got %d messages, err=%v); %s", len(msgs), err1, desc), cs)
			return
		}
	}
	c.Nontrivial(desc)
	c.Distinct("states", fmt.Sprintf("limit/%d/%v", cf.Limit, int64(n) > cf.Limit))
}

func (h *harness) overflowCase(cf cfg) {
	c := h.c
	for _, claimed := range []uint64{1<<63 - 1, 1<<63 - 2, 1 << 62} {
		for _, firstLen := range []int{1, 2} {
			c.Eval()
			c.Add("traces_validated_against_impl", 1)
			f1 := wsref.Frame{Fin: false, Opcode: 2, Masked: cf.Server, Key: [4]byte{5, 6, 7, 8}, Len: uint64(firstLen), Payload: hl.Pattern(firstLen, 1)}
			f2 := wsref.Frame{Fin: true, Opcode: 0, Masked: cf.Server, Key: [4]byte{5, 6, 7, 8}, LenForm: 64, Len: claimed, Payload: hl.Pattern(5000, 2)}
			wire := append(f1.Bytes(), f2.Bytes()...)
			msgs, err1, _, _, pan, handed := readAll2(cf, wire, 3)
			cs := seqCase{Part: "limit-overflow", Cfg: cf, Sizes: []int{firstLen, int(claimed >> 32)}, Cut: -1}
			desc := fmt.Sprintf("limit %d, server=%v: %d-byte fragment then a continuation claiming %d bytes (5000 present)", cf.Limit, cf.Server, firstLen, claimed)
			if pan != "" {
				c.Violation("panic/"+strings.SplitN(pan, ":", 2)[0], "reader panicked: "+pan+"; "+desc, cs)
				continue
			}
			if len(msgs) != 0 || int64(handed) > cf.Limit {
				c.Violation("limit/overflow-delivered", fmt.Sprintf("%d payload bytes were handed to the application under limit %d (messages completed: %d, err=%v); %s", handed, cf.Limit, len(msgs), err1, desc), cs)
				continue
			}
			if err1 == nil {
				c.Violation("limit/overflow-no-error", desc, cs)
				continue
			}
			c.Nontrivial(desc)
		}
	}
}

// ---------------------------------------------------------------- cuts

func (h *harness) cuts(cf cfg) {
	c := h.c
	valid := []FD{
		{Op: 1, Fin: true, Len: "125"}, {Op: 2, Fin: true, Len: "126"}, {Op: 2, Fin: false, Len: "1"}, {Op: 0, Fin: false, Len: "126"}, {Op: 0, Fin: true, Len: "1"},
		{Op: 9, Fin: true, Len: "125"}, {Op: 10, Fin: true, Len: "0"}, {Op: 1, Fin: true, Len: "0"},
	}
	var rec func(seq []FD, frames []wsref.Frame, ref *wsref.Receiver)
	rec = func(seq []FD, frames []wsref.Frame, ref *wsref.Receiver) {
		for _, f := range valid {
			fr := materialise(f, cf.Server, false, byte(len(seq)))
			r2 := ref.Clone()
			r2.Frame(fr)
			if !r2.Running() {
				continue
			}
			s2 := append(append([]FD{}, seq...), f)
			f2 := append(append([]wsref.Frame{}, frames...), fr)
			h.idx++
			if c.Mine(h.idx) {
				var wire []byte
				var ends []int
				for _, x := range f2 {
					wire = append(wire, x.Bytes()...)
					ends = append(ends, len(wire))
				}
				for k := 0; k < len(wire); k++ {
					c.Eval()
					c.Add("traces_validated_against_impl", 1)
					msgs, err1, _, _, pan := readAll(cf, wire[:k], len(s2)+2)
					cs := seqCase{Part: "cut", Cfg: cf, Frames: s2, Cut: k}
					desc := fmt.Sprintf("server=%v frames %v cut at %d of %d", cf.Server, s2, k, len(wire))
					if pan != "" {
						c.Violation("panic/"+strings.SplitN(pan, ":", 2)[0], "reader panicked: "+pan+"; "+desc, cs)
						break
					}
					// reference on the whole frames before the cut
					rr := &wsref.Receiver{IsServer: cf.Server}
					for i, x := range f2 {
						if ends[i] <= k {
							rr.Frame(x)
						}
					}
					if err1 == nil {
						c.Violation("cut/no-error", desc, cs)
						break
					}
					if len(msgs) != len(rr.Delivered) {
						c.Violation("cut/short-or-extra-message", fmt.Sprintf("%d messages delivered, %d were complete before the cut (err=%v); %s", len(msgs), len(rr.Delivered), err1, desc), cs)
						break
					}
					ok := true
					for i := range msgs {
						if !bytes.Equal(msgs[i].Payload, rr.Delivered[i].Payload) {
							ok = false
						}
					}
					if !ok {
						c.Violation("cut/corrupt-message", desc, cs)
						break
					}
					c.Nontrivial(desc)
				}
			}
			if len(s2) < 3 {
				rec(s2, f2, r2)
			}
		}
	}
	rec(nil, nil, &wsref.Receiver{IsServer: cf.Server})
}

func run(c *hl.Ctx) {
	c.Rule("E2: depth-first enumeration of every frame sequence <= D over the abstract alphabet opcode {0,1,2,3,8,9,10,11} x FIN x RSV {0,1,2,4} x mask {right,wrong} x length {0,1,125,126,65536 honest; 2^63-1, 2^63, 2^64-1 claimed} and 13 close payloads; a prefix is extended only while the reference RFC 6455 receiver is still running; every node is replayed on a fresh real Conn (4 configurations: role x compression negotiated). Judged: delivered messages equal the reference's up to the first violation, the read fails and stays failed, a 1002 Close is sent for the listed violations, top-bit lengths are never accepted, pongs echo ping payloads in order, a valid Close is echoed. Limit family: L in {1,125,126,1000} x message sizes around L x every fragmentation into <= 3 frames over the boundary cut points, and claimed lengths overflowing the running total. Cut family: every cut offset of every valid sequence <= 3 frames. state = abstract receiver state; transition = one frame."+closeRule+limitCtlRule+lenFormRule)
	c.Assume("non-minimal length encodings are judged in the length-form family only (the other families use the minimal form), where a DATA frame in a non-minimal form may be accepted or refused with a 1002 Close (RFC 6455 5.2 binds the sender; the statement does not list it) while a Close/Ping/Pong in the 16-bit or 64-bit form is a violation whatever its decoded value (5.5: a control frame carries a 7-bit length <= 125)", "a 1-byte Close payload and RSV1 on continuation/control frames under negotiated compression are outside the judged set", "text payloads are not checked for UTF-8 (the statement does not list it)", "the 1002 Close is not demanded for a top-bit length, only rejection",
		"close codes 1012-1014 (registered after RFC 6455) with a well-formed reason may be accepted or rejected, coherently (CloseError with the code and an echo, or failure with a 1002 Close); the status code of the echo of a valid Close is not judged",
		"limit family with control frames: the Close (status 1009 in this library) written when the limit error is raised is not judged, nor is the content of the part of an oversized message handed over before the error; a ping arriving after the data frame that carries the running size beyond the limit may or may not be answered; the compressed variant uses a stored-block deflate stream built by hand from RFC 1951 3.2.4 / RFC 7692 7.2.1 (checked against the reference inflater), so that the wire size is exact and the inflated size never exceeds it",
		"the reader's replies go through WriteControl with a 1 s wall-clock deadline: the package clock is frozen (rule R2) and its timers never fire (R2b), so a descheduled worker loses no reply; as a second line of defence a failing frame-sequence or Close case is re-run twice on fresh Conns and reported only when it fails each time (counter transient_outcomes, expected 0)")
	vtime.Enable(time.Now())
	h := &harness{c: c}
	depth := 3
	if c.Thorough() {
		depth = 4
	}
	c.Info("depth", depth)
	// the Close family is small: it runs first so that the budget of the depth-first part cannot cut it
	h.closeFamily()
	if c.Expired() {
		return
	}
	// so is the length-form family
	h.lenFormFamily()
	if c.Expired() {
		return
	}
	// and the limit family with interleaved control frames
	h.limitCtlFamily()
	if c.Expired() {
		return
	}
	// the read-limit and cut families are small as well: before the depth-first part, which is the only one a budget may cut
	for _, cf := range []cfg{{Server: true}, {Server: false}} {
		h.limits(cf)
		h.cuts(cf)
	}
	if c.Expired() {
		return
	}
	for _, cf := range []cfg{{Server: true}, {Server: false}, {Server: true, Compression: true}, {Server: false, Compression: true}} {
		a := alphabet(cf)
		c.Info(fmt.Sprintf("alphabet_server=%v_compression=%v", cf.Server, cf.Compression), len(a))
		d := depth
		if cf.Compression && c.Quick() {
			d = depth - 1
		}
		h.dfs(cf, a, nil, nil, &wsref.Receiver{IsServer: cf.Server, Compression: cf.Compression}, d)
		if c.Expired() {
			return
		}
	}
	if c.Shard == 0 {
		c.Sample(map[string]interface{}{"part": "seq", "frames": "op2/len:1 op9F/len:125 op0F/len:0", "meaning": "fragment, ping in between, final empty continuation"})
		c.Sample(map[string]interface{}{"part": "limit", "limit": 125, "message": 126, "fragmentation": []int{1, 124, 1}})
		c.Sample(map[string]interface{}{"part": "lenform", "context": "in-fragment", "frames": "text[h] X=op9F/form16/len:5 cont[y]F text[t]F", "meaning": "a ping whose 5-byte length is written in the 16-bit form between two fragments: 1002, nothing delivered, no pong"})
		c.Sample(map[string]interface{}{"part": "limit-ctl", "limit": 125, "message": 250, "sequence": "data[125] ping5 data[0] pong0 data[125] close", "meaning": "each run of fragments between control frames is within the limit, the message is not"})
	}
}

func replay(c *hl.Ctx, raw json.RawMessage) {
	var cs seqCase
	if err := json.Unmarshal(raw, &cs); err != nil {
		panic(err)
	}
	vtime.Enable(time.Now())
	h := &harness{c: c}
	switch cs.Part {
	case "close":
		replayClose(c, raw)
	case "limit-ctl":
		replayLimitCtl(c, raw)
	case "lenform":
		replayLenForm(c, raw)
	case "seq":
		ref := &wsref.Receiver{IsServer: cs.Cfg.Server, Compression: cs.Cfg.Compression}
		var frames []wsref.Frame
		giant := false
		for i, f := range cs.Frames {
			fr := materialise(f, cs.Cfg.Server, cs.Cfg.Compression, byte(i))
			if f.Len == "h63m1" && f.Op != 8 {
				g := fr
				g.Fin = g.Fin && wsref.IsControl(g.Opcode)
				ref.Frame(g)
			} else {
				ref.Frame(fr)
			}
			frames = append(frames, fr)
			giant = ref.Running() && f.Len == "h63m1" && f.Op != 8
		}
		h.evaluate(cs.Cfg, cs.Frames, frames, ref, giant)
	case "limit":
		n := 0
		for _, s := range cs.Sizes {
			n += s
		}
		h.limitCase(cs.Cfg, n, cs.Sizes)
	case "limit-overflow":
		h.overflowCase(cs.Cfg)
	case "cut":
		c.NShards = 1
		h.cuts(cs.Cfg)
	}
}

func main() {
	hl.Main(hl.Check{ID: "C14", Level: "model_checking", Run: run, Replay: replay})
}
