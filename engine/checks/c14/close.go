// Close-frame family of C14: the product close status code x close reason
// (valid and invalid UTF-8, every length boundary of a control frame) x role x
// compression x receiver state, judged against RFC 6455 5.5.1 / 7.4 and the
// RFC 3629 grammar of UTF-8 (own validator below, not the library's).
package main

import (
	"bytes"
	"encoding/binary"
	"encoding/hex"
	"encoding/json"
	"fmt"
	"io"
	"strconv"
	"unicode/utf8"

	"github.com/ossrs/go-oryx-lib/websocket"

	"verif/hl"
	"verif/ref/wsref"
	"verif/wsx"
)

const closeRule = " Close family: one Close frame (FIN, RSV 0, right mask, honest length) whose payload is status code x reason, preceded by one of 4 receiver states (nothing; a delivered text message; an open fragmented message; a ping) and followed by a valid text message that must never be delivered. (A) codes = every class boundary of RFC 6455 7.4 with v-1,v,v+1 (36 codes in 0..65535, all 65536 codes x the bare sequences in the thorough tier) and the empty payload x reasons = 70 UTF-8 sequences (every first/last scalar of the 1-,2-,3-,4-byte forms and around the surrogate gap; lone continuation, truncated at every length, overlong 2/3/4-byte, surrogates, above U+10FFFF, 5/6-byte forms, FE/FF, lead byte followed by a non-continuation) each placed alone, after/before/between ASCII, at the end and at the start of a 123-byte reason (payload 125, the control-frame maximum) and at the end of a 124-byte reason (payload 126: oversized control frame) x role x compression negotiated x whole-buffer and one-byte reads; (B) every byte string of length <= 3 (<= 4 thorough) over the 31 boundary bytes of the RFC 3629 grammar as reason x one code of each class x role. Oracle: code valid per 7.4 (1000-1003, 1007-1011, 3000-4999) and reason well-formed UTF-8 per RFC 3629 => the read fails permanently with CloseError{code, reason}, owed pongs precede exactly one Close reply; otherwise (invalid code, ill-formed reason, payload > 125) => the read fails permanently and the reply is a Close with status 1002; in both cases exactly the messages completed before the Close are delivered. non-trivial = every clause held for the case (key role/compression/state/reads/code/reason)."

// ---------------------------------------------------------------- UTF-8 per RFC 3629 section 4

// wellFormedUTF8 implements the ABNF of RFC 3629:
//
//	UTF8-1 = %x00-7F
//	UTF8-2 = %xC2-DF UTF8-tail
//	UTF8-3 = %xE0 %xA0-BF UTF8-tail / %xE1-EC 2( UTF8-tail ) / %xED %x80-9F UTF8-tail / %xEE-EF 2( UTF8-tail )
//	UTF8-4 = %xF0 %x90-BF 2( UTF8-tail ) / %xF1-F3 3( UTF8-tail ) / %xF4 %x80-8F 2( UTF8-tail )
//	UTF8-tail = %x80-BF
func wellFormedUTF8(b []byte) bool {
	in := func(i int, lo, hi byte) bool { return i < len(b) && b[i] >= lo && b[i] <= hi }
	tail := func(i int) bool { return in(i, 0x80, 0xBF) }
	for i := 0; i < len(b); {
		c := b[i]
		switch {
		case c <= 0x7F:
			i++
		case c >= 0xC2 && c <= 0xDF:
			if !tail(i + 1) {
				return false
			}
			i += 2
		case c == 0xE0:
			if !in(i+1, 0xA0, 0xBF) || !tail(i+2) {
				return false
			}
			i += 3
		case c >= 0xE1 && c <= 0xEC, c == 0xEE, c == 0xEF:
			if !tail(i+1) || !tail(i+2) {
				return false
			}
			i += 3
		case c == 0xED:
			if !in(i+1, 0x80, 0x9F) || !tail(i+2) {
				return false
			}
			i += 3
		case c == 0xF0:
			if !in(i+1, 0x90, 0xBF) || !tail(i+2) || !tail(i+3) {
				return false
			}
			i += 4
		case c >= 0xF1 && c <= 0xF3:
			if !tail(i+1) || !tail(i+2) || !tail(i+3) {
				return false
			}
			i += 4
		case c == 0xF4:
			if !in(i+1, 0x80, 0x8F) || !tail(i+2) || !tail(i+3) {
				return false
			}
			i += 4
		default: // 80-BF as a lead, C0, C1, F5-FF
			return false
		}
	}
	return true
}

// ---------------------------------------------------------------- close status codes per RFC 6455 7.4

type codeVerdict int

const (
	codeValid   codeVerdict = iota // may appear in a Close frame
	codeInvalid                    // must not appear in a Close frame sent by a peer
	codeEither                     // registered with IANA after RFC 6455: the statement does not decide
)

// closeCodeClass returns the class name (for violation keys) and the verdict.
//
//	0-999      not used (7.4.2)
//	1000-1003  defined (7.4.1)
//	1004       reserved; 1005, 1006 MUST NOT be set as a status code in a Close frame
//	1007-1011  defined (7.4.1)
//	1012-1014  not defined by RFC 6455 (later IANA registrations): either outcome accepted
//	1015       MUST NOT be set as a status code in a Close frame
//	1016-2999  reserved for the protocol, undefined
//	3000-4999  libraries/frameworks/applications and private use
//	5000-65535 outside every range of 7.4.2
func closeCodeClass(code int) (string, codeVerdict) {
	switch {
	case code <= 999:
		return "0-999", codeInvalid
	case code <= 1003:
		return "1000-1003", codeValid
	case code <= 1006:
		return "1004-1006", codeInvalid
	case code <= 1011:
		return "1007-1011", codeValid
	case code <= 1014:
		return "1012-1014", codeEither
	case code == 1015:
		return "1015", codeInvalid
	case code <= 2999:
		return "1016-2999", codeInvalid
	case code <= 4999:
		return "3000-4999", codeValid
	}
	return "5000-65535", codeInvalid
}

// boundaryCodes: every class boundary v with v-1, v, v+1, plus the ends of the 16-bit range and its sign boundary.
var boundaryCodes = []int{
	1000, 1001, 3000, 4999, 1002, 1003, 1007, 1008, 1009, 1010, 1011, 3001, 3999, 4000, 4001, 4998,
	1012, 1013, 1014,
	0, 1, 998, 999, 1004, 1005, 1006, 1015, 1016, 1017, 1099, 1100, 1999, 2000, 2998, 2999, 5000, 5001, 32767, 32768, 65534, 65535,
}

// ---------------------------------------------------------------- reasons

var validSeqs = []string{
	"a", "bye", "\x00", "\x7f",
	"\xc2\x80", "\xdf\xbf",
	"\xe0\xa0\x80", "\xe0\xbf\xbf", "\xe1\x80\x80", "\xe2\x82\xac", "\xec\xbf\xbf", "\xed\x80\x80", "\xed\x9f\xbf", "\xee\x80\x80", "\xef\xbf\xbd", "\xef\xbf\xbf",
	"\xf0\x90\x80\x80", "\xf0\x9f\x98\x80", "\xf0\xbf\xbf\xbf", "\xf1\x80\x80\x80", "\xf3\xbf\xbf\xbf", "\xf4\x80\x80\x80", "\xf4\x8f\xbf\xbf",
}

var invalidSeqs = []string{
	"\x80", "\xbf", "\xa0", "\x80\x80", // lone continuation
	"\xc2", "\xdf", "\xe0", "\xe0\xa0", "\xe2\x82", "\xed\x9f", "\xef\xbf", "\xf0", "\xf0\x90", "\xf0\x9f\x98", "\xf4\x8f\xbf", // truncated
	"\xc0\x80", "\xc0\xaf", "\xc1\xbf", // overlong 2-byte
	"\xe0\x80\x80", "\xe0\x9f\xbf", // overlong 3-byte
	"\xf0\x80\x80\x80", "\xf0\x8f\xbf\xbf", // overlong 4-byte
	"\xed\xa0\x80", "\xed\xaf\xbf", "\xed\xb0\x80", "\xed\xbf\xbf", // surrogates
	"\xf4\x90\x80\x80", "\xf4\xbf\xbf\xbf", "\xf5\x80\x80\x80", "\xf7\xbf\xbf\xbf", // above U+10FFFF
	"\xf8\x88\x80\x80\x80", "\xfb\xbf\xbf\xbf\xbf", "\xfc\x84\x80\x80\x80\x80", "\xfd\xbf\xbf\xbf\xbf\xbf", // 5- and 6-byte forms
	"\xfe", "\xff", "\xff\xfe",
	"\xc2\x41", "\xc2\xc2\x80", "\xe2\x82\x41", "\xe2\x41\x82", "\xf0\x9f\x41\x80", "\xf0\x9f\x98\x41", // lead followed by a non-continuation
	"\xc2\x80\x80", "\xe2\x82\xac\xbf", "\xf0\x9f\x98\x80\x80", // well-formed sequence followed by a lone continuation
}

func pad(n int) []byte {
	b := make([]byte, n)
	for i := range b {
		b[i] = 'a' + byte(i%26)
	}
	return b
}

// placements of one sequence inside a reason; name is part of the case description only.
func placements(s string) [][]byte {
	k := len(s)
	cat := func(p ...[]byte) []byte { return bytes.Join(p, nil) }
	return [][]byte{
		[]byte(s),
		cat([]byte("a"), []byte(s)),
		cat([]byte(s), []byte("a")),
		cat([]byte("a"), []byte(s), []byte("a")),
		cat(pad(123-k), []byte(s)), // ends exactly at the control-frame maximum
		cat([]byte(s), pad(123-k)),
		cat(pad(124-k), []byte(s)), // one byte beyond: payload 126
	}
}

// boundary bytes of the RFC 3629 grammar (each range end, and its neighbours where they differ in kind)
var gramBytes = []byte{0x00, 0x41, 0x7F, 0x80, 0x8F, 0x90, 0x9F, 0xA0, 0xBF, 0xC0, 0xC1, 0xC2, 0xDF, 0xE0, 0xE1, 0xEC, 0xED, 0xEE, 0xEF, 0xF0, 0xF1, 0xF3, 0xF4, 0xF5, 0xF7, 0xF8, 0xFB, 0xFC, 0xFD, 0xFE, 0xFF}

// one code per class for family B
var classCodes = []int{1000, 3000, 4999, 1011, 1013, 1005, 2999}

// ---------------------------------------------------------------- the case

type closeCase struct {
	Part      string `json:"part"` // "close"
	Cfg       cfg    `json:"cfg"`
	State     string `json:"state"` // "none", "after-message", "in-fragment", "after-ping"
	OneByte   bool   `json:"onebyte"`
	NoPayload bool   `json:"nopayload"`
	Code      int    `json:"code"`
	Reason    string `json:"reason"` // hex
}

var closeStates = []string{"none", "after-message", "in-fragment", "after-ping"}

func statePrefix(state string, server bool) []wsref.Frame {
	mk := func(op byte, fin bool, p string) wsref.Frame {
		return wsref.Frame{Fin: fin, Opcode: op, Masked: server, Key: [4]byte{0x21, 0x43, 0x65, 0x87}, Len: uint64(len(p)), Payload: []byte(p)}
	}
	switch state {
	case "after-message":
		return []wsref.Frame{mk(wsref.OpText, true, "hi")}
	case "in-fragment":
		return []wsref.Frame{mk(wsref.OpText, false, "hi")}
	case "after-ping":
		return []wsref.Frame{mk(wsref.OpPing, true, "p")}
	}
	return nil
}

// readWire is readAll2 with the one-byte read mode of the transport.
func readWire(cf cfg, wire []byte, oneByte bool, max int) (msgs []delivered, firstErr error, secondErr error, out []byte, pan string) {
	mem := &wsx.Conn{In: wire, OneByte: oneByte}
	p, msg, st := hl.TryStack(func() {
		ws := websocket.VerifNewConn(mem, cf.Server, 128, 128, cf.Compression)
		buf := make([]byte, 512)
		for i := 0; i < max; i++ {
			mt, r, err := ws.NextReader()
			if err != nil {
				firstErr = err
				_, _, secondErr = ws.ReadMessage()
				return
			}
			var b []byte
			for {
				n, e := r.Read(buf)
				b = append(b, buf[:n]...)
				if e == io.EOF {
					break
				}
				if e != nil {
					firstErr = e
					_, _, secondErr = ws.ReadMessage()
					return
				}
			}
			msgs = append(msgs, delivered{mt, b})
		}
	})
	if p {
		pan = hl.PanicSite(st) + ": " + msg
	}
	return msgs, firstErr, secondErr, mem.Out, pan
}

func reasonKind(reason []byte, wf bool) string {
	switch {
	case len(reason) == 0:
		return "empty"
	case wf && len(reason) == 123:
		return "utf8-max-length"
	case wf:
		return "utf8"
	}
	return "ill-formed"
}

func (h *harness) closeCase(cc closeCase) {
	h.confirmed(func() { h.closeCase1(cc) })
}

func (h *harness) closeCase1(cc closeCase) {
	c := h.c
	if !h.probing {
		c.Eval()
		c.Add("close_cases", 1)
		c.Add("traces_validated_against_impl", 1)
	}
	cf := cc.Cfg
	reason, err := hex.DecodeString(cc.Reason)
	if err != nil {
		panic(err)
	}
	var payload []byte
	if !cc.NoPayload {
		payload = make([]byte, 2, 2+len(reason))
		binary.BigEndian.PutUint16(payload, uint16(cc.Code))
		payload = append(payload, reason...)
	}
	// the reference judgement
	wf := wellFormedUTF8(reason)
	if wf != utf8.Valid(reason) {
		panic(fmt.Sprintf("harness: RFC 3629 validator and unicode/utf8 disagree on %x", reason))
	}
	class, verdict := closeCodeClass(cc.Code)
	wantCode := cc.Code
	why := ""
	switch {
	case len(payload) > 125:
		why = "oversized-control-frame"
	case cc.NoPayload:
		class, verdict, wantCode = "none", codeValid, 1005
	case verdict == codeInvalid:
		why = "invalid-close-code"
	case !wf:
		why = "non-UTF-8-close-reason"
	}
	feature := "valid-close/code-" + class
	if why != "" {
		feature = why + "/code-" + class
	}

	// the wire: state prefix, the Close frame, a valid text message that must never be delivered
	pre := statePrefix(cc.State, cf.Server)
	ref := &wsref.Receiver{IsServer: cf.Server, Compression: cf.Compression}
	var wire []byte
	for _, f := range pre {
		ref.Frame(f)
		wire = append(wire, f.Bytes()...)
	}
	if !ref.Running() {
		panic("harness: state prefix is not a conformant stream")
	}
	cl := wsref.Frame{Fin: true, Opcode: wsref.OpClose, Masked: cf.Server, Key: [4]byte{0x37, 0xfa, 0x21, 0x3d}, Len: uint64(len(payload)), Payload: payload}
	wire = append(wire, cl.Bytes()...)
	tail := wsref.Frame{Fin: true, Opcode: wsref.OpText, Masked: cf.Server, Key: [4]byte{9, 9, 9, 9}, Len: uint64(len(injected)), Payload: injected}
	wire = append(wire, tail.Bytes()...)

	msgs, err1, err2, out, pan := readWire(cf, wire, cc.OneByte, len(pre)+4)
	desc := func() string {
		p := "empty payload"
		if !cc.NoPayload {
			p = fmt.Sprintf("status %d, %d-byte reason %s (well-formed UTF-8: %v)", cc.Code, len(reason), hl.Hex(reason), wf)
		}
		return fmt.Sprintf("receiver role server=%v compression=%v one-byte reads=%v, state %s; Close frame with %s, then a text message; wire %s", cf.Server, cf.Compression, cc.OneByte, cc.State, p, hl.Hex(wire))
	}
	if pan != "" {
		h.violation("panic/"+splitSite(pan), "reader panicked: "+pan+"; "+desc(), cc)
		return
	}
	// exactly the messages completed before the Close
	for i, m := range msgs {
		if i >= len(ref.Delivered) {
			h.violation("close-delivered-extra/"+feature, fmt.Sprintf("message %d {type %d, %q} was delivered although reading ends at the Close frame (a conformant receiver delivers %d messages); %s", i, m.Type, trunc(m.Payload), len(ref.Delivered), desc()), cc)
			return
		}
		if want := ref.Delivered[i]; m.Type != int(want.Opcode) || !bytes.Equal(m.Payload, want.Payload) {
			h.violation("close-delivered-wrong/"+feature, fmt.Sprintf("message %d delivered as {type %d, %q}, sent as {type %d, %q}; %s", i, m.Type, trunc(m.Payload), want.Opcode, trunc(want.Payload), desc()), cc)
			return
		}
	}
	if len(msgs) < len(ref.Delivered) {
		h.violation("close-delivered-missing/"+feature, fmt.Sprintf("%d messages delivered, %d were complete before the Close frame (err=%v); %s", len(msgs), len(ref.Delivered), err1, desc()), cc)
		return
	}
	if err1 == nil {
		h.violation("close-no-error/"+feature, "reading went on without error past the Close frame and the end of the stream; "+desc(), cc)
		return
	}
	if err2 == nil {
		h.violation("close-error-not-permanent/"+feature, fmt.Sprintf("after the read failed with %v the next read succeeded; %s", err1, desc()), cc)
		return
	}
	// replies
	of, rest := wsref.ParseAll(out)
	if len(rest) != 0 {
		h.violation("close-reply-garbage", fmt.Sprintf("the endpoint's replies do not parse as whole frames (%d trailing bytes); %s", len(rest), desc()), cc)
		return
	}
	if _, e := wsref.SenderCheck(of, !cf.Server, cf.Compression); e != nil {
		h.violation("close-reply-invalid", "the endpoint's replies violate the sender rules: "+e.Error()+"; "+desc(), cc)
		return
	}
	var pongs [][]byte
	var closeF *wsref.Frame
	for i := range of {
		switch {
		case closeF != nil:
			h.violation("close-reply-after-close", fmt.Sprintf("frame %v follows the Close reply; %s", of[i], desc()), cc)
			return
		case of[i].Opcode == wsref.OpPong:
			pongs = append(pongs, of[i].Payload)
		case of[i].Opcode == wsref.OpClose:
			closeF = &of[i]
		default:
			h.violation("close-reply-unexpected", fmt.Sprintf("unexpected frame %v written by a reader; %s", of[i], desc()), cc)
			return
		}
	}
	if len(pongs) != len(ref.Pongs) || (len(pongs) == 1 && !bytes.Equal(pongs[0], ref.Pongs[0])) {
		h.violation("close-pong/"+feature, fmt.Sprintf("pongs sent %q for pings received %q before the Close; %s", pongs, ref.Pongs, desc()), cc)
		return
	}
	replyCode := -1
	if closeF != nil && len(closeF.Payload) >= 2 {
		replyCode = int(binary.BigEndian.Uint16(closeF.Payload))
	}
	ce, isCE := err1.(*websocket.CloseError)
	accept := why == "" && verdict == codeValid
	if why == "" && verdict == codeEither {
		// 1012-1014 with a well-formed reason: whichever way the reader decides, it must be coherent
		accept = isCE
	}
	if !accept {
		if replyCode != 1002 {
			got := "no Close frame"
			if closeF != nil {
				got = fmt.Sprintf("a Close frame with payload %s", hl.Hex(closeF.Payload))
			}
			rule := why
			if rule == "" {
				rule = "close code treated as invalid"
			}
			h.violation("close-no-1002/"+feature, fmt.Sprintf("rule violation (%s): the read ended with %q (%T) and the endpoint sent %s, not a Close frame with status 1002; %s", rule, err1.Error(), err1, got, desc()), cc)
			return
		}
	} else {
		if !isCE || ce.Code != wantCode {
			h.violation("close-error/code-"+class, fmt.Sprintf("valid Close received (code %d expected in the error): the read error is %q (%T); %s", wantCode, err1.Error(), err1, desc()), cc)
			return
		}
		if ce.Text != string(reason) {
			h.violation("close-error-text/"+reasonKind(reason, wf), fmt.Sprintf("valid Close received: CloseError.Text is %q (%d bytes), the reason sent is %q (%d bytes); %s", trunc([]byte(ce.Text)), len(ce.Text), trunc(reason), len(reason), desc()), cc)
			return
		}
		if closeF == nil {
			h.violation("close-not-echoed/code-"+class, "valid Close received but no Close frame was sent back; "+desc(), cc)
			return
		}
	}
	c.Nontrivial(caseKey(cc))
	c.Distinct("states", fmt.Sprintf("close/%v/%s/%s/%s", cf, cc.State, feature, reasonKind(reason, wf)))
}

func splitSite(pan string) string {
	for i := 0; i < len(pan); i++ {
		if pan[i] == ':' {
			return pan[:i]
		}
	}
	return pan
}

func caseKey(cc closeCase) string {
	b := make([]byte, 0, 48+len(cc.Reason))
	b = append(b, "close/"...)
	b = strconv.AppendBool(b, cc.Cfg.Server)
	b = strconv.AppendBool(b, cc.Cfg.Compression)
	b = strconv.AppendBool(b, cc.OneByte)
	b = strconv.AppendBool(b, cc.NoPayload)
	b = append(b, cc.State...)
	b = append(b, '/')
	b = strconv.AppendInt(b, int64(cc.Code), 10)
	b = append(b, '/')
	b = append(b, cc.Reason...)
	return string(b)
}

// ---------------------------------------------------------------- enumeration

type closeVariant struct {
	cf      cfg
	state   string
	oneByte bool
}

func closeVariants() []closeVariant {
	var v []closeVariant
	for _, ob := range []bool{false, true} {
		for _, cf := range []cfg{{Server: true}, {Server: false}, {Server: true, Compression: true}, {Server: false, Compression: true}} {
			if ob && cf.Compression {
				continue
			}
			for _, st := range closeStates {
				v = append(v, closeVariant{cf, st, ob})
			}
		}
	}
	return v
}

func (h *harness) closeFamily() {
	c := h.c
	// A: reasons (simplest first), deduplicated
	var reasons [][]byte
	var bare [][]byte
	seen := map[string]bool{}
	add := func(list *[][]byte, r []byte) {
		if !seen[string(r)] {
			seen[string(r)] = true
			*list = append(*list, r)
		}
	}
	add(&reasons, nil)
	nseq := 0
	for pl := 0; pl < 7; pl++ {
		for _, set := range [][]string{validSeqs, invalidSeqs} {
			for _, s := range set {
				if pl == 0 {
					nseq++
				}
				add(&reasons, placements(s)[pl])
			}
		}
	}
	bare = append(bare, nil)
	for _, set := range [][]string{validSeqs, invalidSeqs} {
		for _, s := range set {
			bare = append(bare, []byte(s))
		}
	}
	variants := closeVariants()
	c.Info("close_boundary_codes", len(boundaryCodes))
	c.Info("close_sequences", nseq)
	c.Info("close_reasons", len(reasons))
	c.Info("close_variants", len(variants))

	// the empty payload
	for _, v := range variants {
		h.idx++
		if c.Mine(h.idx) {
			h.closeCase(closeCase{Part: "close", Cfg: v.cf, State: v.state, OneByte: v.oneByte, NoPayload: true})
		}
	}
	for _, r := range reasons {
		rh := hex.EncodeToString(r)
		for _, code := range boundaryCodes {
			h.idx++
			if !c.Mine(h.idx) {
				continue
			}
			for _, v := range variants {
				h.closeCase(closeCase{Part: "close", Cfg: v.cf, State: v.state, OneByte: v.oneByte, Code: code, Reason: rh})
			}
		}
		if c.Expired() {
			return
		}
	}
	if c.Thorough() {
		// every 16-bit code x the bare sequences x role
		for code := 0; code <= 0xFFFF; code++ {
			h.idx++
			if !c.Mine(h.idx) {
				continue
			}
			for _, r := range bare {
				rh := hex.EncodeToString(r)
				for _, server := range []bool{true, false} {
					h.closeCase(closeCase{Part: "close", Cfg: cfg{Server: server}, State: "none", Code: code, Reason: rh})
				}
			}
			if code%256 == 0 && c.Expired() {
				return
			}
		}
	}

	// B: every byte string up to length maxLen over the grammar's boundary bytes
	maxLen := 3
	if c.Thorough() {
		maxLen = 4
	}
	c.Info("close_grammar_bytes", len(gramBytes))
	c.Info("close_grammar_maxlen", maxLen)
	mine := 0
	for n := 1; n <= maxLen; n++ {
		ix := make([]int, n)
		buf := make([]byte, n)
		for {
			for i := range ix {
				buf[i] = gramBytes[ix[i]]
			}
			h.idx++
			if c.Mine(h.idx) && !seen[string(buf)] { // reasons of family A were judged there with these codes and roles
				rh := hex.EncodeToString(buf)
				for _, code := range classCodes {
					for _, server := range []bool{true, false} {
						h.closeCase(closeCase{Part: "close", Cfg: cfg{Server: server}, State: "none", Code: code, Reason: rh})
					}
				}
				if mine++; mine%512 == 0 && c.Expired() {
					return
				}
			}
			// next string, last position fastest
			k := n - 1
			for k >= 0 {
				ix[k]++
				if ix[k] < len(gramBytes) {
					break
				}
				ix[k] = 0
				k--
			}
			if k < 0 {
				break
			}
		}
	}
}

func replayClose(c *hl.Ctx, raw json.RawMessage) {
	var cc closeCase
	if err := json.Unmarshal(raw, &cc); err != nil {
		panic(err)
	}
	(&harness{c: c}).closeCase(cc)
}
