// Length-form family of C14: the length FORM of a frame (7-bit field, 16-bit
// extension, 64-bit extension) as a coordinate of its own, independent of the
// decoded value, so that non-minimal encodings are enumerated: one frame under
// test X = opcode x FIN x RSV x mask x form x value, placed alone, after a
// complete message, between two fragments of a message and after a ping,
// always followed by further frames that must not be delivered once X is a
// rule violation, for both roles, compression negotiated or not, without and
// with a read limit around the sizes involved.
//
// Oracle (RFC 6455 5.5: "all control frames MUST have a payload length of 125
// bytes or less", which only the 7-bit form can express; 5.2: the minimal
// encoding MUST be used): a Close, Ping or Pong whose length is written in the
// 16-bit or the 64-bit form is a protocol violation whatever the decoded value
// is. A DATA frame in a non-minimal form is not in the statement's list of
// violations: either outcome (payload delivered, or refused with a 1002 Close)
// is accepted.
package main

import (
	"bytes"
	"encoding/binary"
	"encoding/json"
	"fmt"
	"sort"
	"strconv"
	"strings"

	"github.com/ossrs/go-oryx-lib/websocket"

	"verif/hl"
	"verif/ref/wsref"
)

const lenFormRule = " Length-form family: one frame under test X = opcode {9,10,8,1,2,0,3,11} x FIN x RSV {0,1,2,4} (RSV1 left out when compression is negotiated) x mask {right,wrong} x length form {7-bit,16-bit,64-bit} x decoded value {0,1,2,125 | 16-bit and 64-bit: also 126,65535 | 64-bit: also 65536, 2^63-1, 2^63, 2^64-1} (thorough: also 124,127,65534,65537,2^31,2^32), i.e. every NON-MINIMAL encoding of the boundary values as well as the minimal ones; honest payload of that many bytes (Close: status 1000 and an ASCII reason; values from 2^31 up are claimed only and the stream goes on with the next frame) x context {X first; after a complete text message; between two fragments of a message; after a ping} (thorough: also after a pong, after two open fragments, after an open fragment and a ping) followed by the final continuation of the open message (if one is open or X opens one) and a 1-byte text message x role x compression negotiated or not (thorough: also one-byte transport reads) x read limit {none, 1000, and v-1..v+3 around the decoded value v of X when X has RSV 0 and the right mask}. Oracle: the reference receiver, with the added rule that a Close/Ping/Pong whose length is not in the 7-bit form is a protocol violation at that frame whatever the decoded value (RFC 6455 5.5, 5.2): exactly the messages completed before it are delivered, nothing after it, no pong for it, the read fails permanently and a 1002 Close is sent; a data frame in a non-minimal form may be accepted (payload delivered as sent) or refused like a violation (1002), coherently. With a limit L the size of a message is the sum of the payload lengths of its accepted data frames: the first data frame that carries it beyond L ends reading with ErrReadLimit, at most L bytes handed over, the messages completed before it delivered, pings before it answered; when a violating data frame would also carry the message beyond L either of the two failures is accepted. non-trivial = every clause held for the case (key cfg/limit/context/X)."

// lfFrame is the frame under test.
type lfFrame struct {
	Op    byte   `json:"op"`
	Fin   bool   `json:"fin"`
	Rsv   byte   `json:"rsv"`
	Wrong bool   `json:"wrongmask"`
	Form  int    `json:"form"` // 7, 16, 64
	Val   lfLen  `json:"val"`  // decoded length
}

// lfLen is a 64-bit length that travels through JSON as a decimal string (2^64-1 does not survive a float64).
type lfLen uint64

func (l lfLen) MarshalJSON() ([]byte, error) {
	return json.Marshal(strconv.FormatUint(uint64(l), 10))
}

func (l *lfLen) UnmarshalJSON(b []byte) error {
	var s string
	if err := json.Unmarshal(b, &s); err != nil {
		return err
	}
	v, err := strconv.ParseUint(s, 10, 64)
	*l = lfLen(v)
	return err
}

func (x lfFrame) String() string {
	s := fmt.Sprintf("op%d", x.Op)
	if x.Fin {
		s += "F"
	}
	if x.Rsv != 0 {
		s += fmt.Sprintf("/rsv%d", x.Rsv)
	}
	if x.Wrong {
		s += "/wrongmask"
	}
	return s + fmt.Sprintf("/form%d/len:%d", x.Form, uint64(x.Val))
}

type lfCase struct {
	Part    string  `json:"part"` // "lenform"
	Cfg     cfg     `json:"cfg"`
	OneByte bool    `json:"onebyte"`
	Ctx     string  `json:"ctx"`
	X       lfFrame `json:"x"`
}

// a length from lfClaimed up is only claimed: no payload of that size is put on the wire
const lfClaimed = uint64(1) << 31

func lfValues(form int, thorough bool) []uint64 {
	var v []uint64
	switch form {
	case 7:
		v = []uint64{0, 1, 2, 125}
		if thorough {
			v = append(v, 124)
		}
	case 16:
		v = []uint64{0, 1, 2, 125, 126, 65535}
		if thorough {
			v = append(v, 124, 127, 65534)
		}
	case 64:
		v = []uint64{0, 1, 2, 125, 126, 65535, 65536, 1<<63 - 1, 1 << 63, 1<<64 - 1}
		if thorough {
			v = append(v, 124, 127, 65534, 65537, 1<<31, 1<<32)
		}
	}
	return v
}

func lfContexts(thorough bool) []string {
	c := []string{"none", "after-message", "in-fragment", "after-ping"}
	if thorough {
		c = append(c, "after-pong", "in-2-fragments", "in-fragment-ping")
	}
	return c
}

func lfIsDataOp(op byte) bool { return op <= 2 }
func lfIsCtlOp(op byte) bool  { return op == wsref.OpClose || op == wsref.OpPing || op == wsref.OpPong }

func lfForm(f wsref.Frame) int {
	if f.LenForm == 0 {
		return wsref.MinimalForm(f.Len)
	}
	return f.LenForm
}

// lfPlan is the frame sequence of a case.
type lfPlan struct {
	frames []wsref.Frame
	names  []string
	wire   []byte
	xIdx   int
}

func lfBuild(cs lfCase) lfPlan {
	server := cs.Cfg.Server
	mk := func(op byte, fin bool, p string, k byte) wsref.Frame {
		return wsref.Frame{Fin: fin, Opcode: op, Masked: server, Key: [4]byte{0x21 + k, 0x43, 0x65, 0x87}, Len: uint64(len(p)), Payload: []byte(p)}
	}
	var pl lfPlan
	add := func(name string, f wsref.Frame) {
		pl.frames = append(pl.frames, f)
		pl.names = append(pl.names, name)
	}
	open := false
	switch cs.Ctx {
	case "none":
	case "after-message":
		add("text[h]F", mk(wsref.OpText, true, "h", 0))
	case "in-fragment":
		add("text[h]", mk(wsref.OpText, false, "h", 0))
		open = true
	case "after-ping":
		add("ping[p]", mk(wsref.OpPing, true, "p", 0))
	case "after-pong":
		add("pong[q]", mk(wsref.OpPong, true, "q", 0))
	case "in-2-fragments":
		add("text[h]", mk(wsref.OpText, false, "h", 0))
		add("cont[i]", mk(wsref.OpCont, false, "i", 1))
		open = true
	case "in-fragment-ping":
		add("text[h]", mk(wsref.OpText, false, "h", 0))
		add("ping[p]", mk(wsref.OpPing, true, "p", 1))
		open = true
	default:
		panic("harness: unknown length-form context " + cs.Ctx)
	}
	x := cs.X
	val := uint64(x.Val)
	if x.Form != 7 && x.Form != 16 && x.Form != 64 {
		panic("harness: unknown length form")
	}
	if (x.Form == 7 && val > 125) || (x.Form == 16 && val > 65535) {
		panic("harness: the value does not fit the length form")
	}
	fr := wsref.Frame{Fin: x.Fin, Opcode: x.Op, Rsv1: x.Rsv&1 != 0, Rsv2: x.Rsv&2 != 0, Rsv3: x.Rsv&4 != 0,
		Masked: server != x.Wrong, Key: [4]byte{0x37, 0xfa, 0x21, 0x3d}, LenForm: x.Form, Len: val}
	switch {
	case val >= lfClaimed:
		// claimed only
	case x.Op == wsref.OpClose:
		switch val {
		case 0:
		case 1:
			fr.Payload = []byte{0x03}
		default:
			fr.Payload = append([]byte{0x03, 0xe8}, pad(int(val)-2)...)
		}
	default:
		fr.Payload = hl.Pattern(int(val), 0x5a)
	}
	pl.xIdx = len(pl.frames)
	add("X="+x.String(), fr)
	// what a reader that takes X for a frame of its kind would expect next
	if lfIsDataOp(x.Op) {
		open = !x.Fin
	}
	if open {
		add("cont[y]F", mk(wsref.OpCont, true, "y", 2))
	}
	add("text[t]F", mk(wsref.OpText, true, "t", 3))
	for _, f := range pl.frames {
		pl.wire = append(pl.wire, f.Bytes()...)
	}
	return pl
}

// lfRefFrame feeds one frame to the reference receiver under the length-form rule for control frames
// (and, with strictData, the alternative reading that refuses non-minimal data frames too).
func lfRefFrame(r *wsref.Receiver, f wsref.Frame, idx int, strictData bool) {
	if !r.Running() {
		return
	}
	onlyFormWrong := func() bool {
		t := r.Clone()
		t.Frame(f)
		return t.Failed == ""
	}
	if lfIsCtlOp(f.Opcode) && lfForm(f) != 7 && onlyFormWrong() {
		r.Failed, r.FailedAt = "control frame length in extended form", idx
		return
	}
	if strictData && lfIsDataOp(f.Opcode) && lfForm(f) != wsref.MinimalForm(f.Len) && onlyFormWrong() {
		r.Failed, r.FailedAt = "data frame length not in minimal form", idx
		return
	}
	r.Frame(f)
}

func lfSatAdd(a, b uint64) uint64 {
	if a+b < a {
		return 1<<64 - 1
	}
	return a + b
}

// lfExpect is what the statement demands of one frame sequence.
type lfExpect struct {
	unjudged  bool
	delivered []wsref.Message
	pongs     [][]byte // owed, in order
	laterPing [][]byte // pings after the limit was exceeded: may or may not be answered
	failed    string
	failedAt  int
	limitAlt  bool // the violating data frame would also carry its message beyond the limit
	trip      int  // index of the data frame that carries the message beyond the limit, -1 none
	tripSize  uint64
	closed    bool
	closeCode int
	giantCut  bool
}

func lfExpectation(cs lfCase, pl lfPlan, strictData bool) lfExpect {
	L := uint64(0)
	if cs.Cfg.Limit > 0 {
		L = uint64(cs.Cfg.Limit)
	}
	ref := &wsref.Receiver{IsServer: cs.Cfg.Server, Compression: cs.Cfg.Compression}
	e := lfExpect{trip: -1}
	running := uint64(0)
	for i, fr := range pl.frames {
		rf := fr
		giant := fr.Len >= lfClaimed && fr.Len>>63 == 0 && lfIsDataOp(fr.Opcode)
		if giant {
			rf.Fin = false // a valid length whose payload cannot follow: nothing of it is delivered
		}
		before := ref.Clone()
		lfRefFrame(ref, rf, i, strictData)
		switch {
		case ref.Unjudged:
			e.unjudged = true
			return e
		case ref.Failed != "":
			e.failed, e.failedAt = ref.Failed, i
			e.delivered, e.pongs = ref.Delivered, ref.Pongs
			e.limitAlt = L > 0 && lfIsDataOp(fr.Opcode) && lfSatAdd(running, fr.Len) > L
			return e
		case ref.Closed:
			e.closed, e.closeCode = true, ref.CloseCode
			e.delivered, e.pongs = ref.Delivered, ref.Pongs
			return e
		}
		if lfIsDataOp(fr.Opcode) {
			if fr.Opcode != wsref.OpCont {
				running = 0
			}
			running = lfSatAdd(running, fr.Len)
			if L > 0 && running > L {
				e.trip, e.tripSize = i, running
				e.delivered, e.pongs = before.Delivered, before.Pongs
				for _, g := range pl.frames[i+1:] {
					if g.Opcode == wsref.OpPing {
						e.laterPing = append(e.laterPing, g.Payload)
					}
				}
				return e
			}
		}
		if giant {
			// the stream ends inside this frame (the frames after it are its first payload bytes)
			e.giantCut = true
			e.delivered, e.pongs = ref.Delivered, ref.Pongs
			return e
		}
	}
	e.delivered, e.pongs = ref.Delivered, ref.Pongs
	return e
}

func (e lfExpect) feature(x lfFrame) string {
	switch {
	case e.failed != "":
		return strings.ReplaceAll(e.failed, " ", "-")
	case e.trip >= 0:
		return "read-limit"
	case e.giantCut:
		return "giant-length-then-cut"
	case lfIsDataOp(x.Op) && x.Form != wsref.MinimalForm(uint64(x.Val)):
		return "nonminimal-data-length"
	case e.closed:
		return "valid-close"
	}
	return "valid"
}

// lfCompare judges what the real Conn did against an expectation; key "" = every clause held.
func lfCompare(cs lfCase, r lcRead, e lfExpect, desc string) (key, what string) {
	L := cs.Cfg.Limit
	if r.pan != "" {
		return "panic/" + splitSite(r.pan), "reader panicked: " + r.pan + "; " + desc
	}
	feature := e.feature(cs.X)
	why := func() string {
		switch {
		case e.failed != "":
			return fmt.Sprintf("rule violation %q at frame %d", e.failed, e.failedAt)
		case e.trip >= 0:
			return fmt.Sprintf("frame %d carries its message to %d payload bytes, beyond the read limit %d", e.trip, e.tripSize, L)
		case e.closed:
			return "valid Close received"
		case e.giantCut:
			return "the stream ends inside a frame"
		}
		return "the stream ends after the last frame"
	}()
	for i, m := range r.msgs {
		if i >= len(e.delivered) {
			return "lenform/delivered-extra/" + feature, fmt.Sprintf("message %d {type %d, %d bytes %q} was delivered but a conformant receiver delivers only %d messages (%s); %s", i, m.Type, len(m.Payload), trunc(m.Payload), len(e.delivered), why, desc)
		}
		want := e.delivered[i]
		if m.Type != int(want.Opcode) || !bytes.Equal(m.Payload, want.Payload) {
			return "lenform/delivered-wrong/" + feature, fmt.Sprintf("message %d delivered as {type %d, %d bytes %q}, a conformant receiver delivers {type %d, %d bytes %q}; %s", i, m.Type, len(m.Payload), trunc(m.Payload), want.Opcode, len(want.Payload), trunc(want.Payload), desc)
		}
	}
	if len(r.msgs) < len(e.delivered) {
		return "lenform/delivered-missing/" + feature, fmt.Sprintf("%d messages delivered, a conformant receiver delivers %d (%s; read error: %v); %s", len(r.msgs), len(e.delivered), why, r.err1, desc)
	}
	if r.err1 == nil {
		return "lenform/no-error/" + feature, "reading went on without error past the end of the stream; " + desc
	}
	if r.err2 == nil {
		return "lenform/error-not-permanent/" + feature, fmt.Sprintf("after the read failed with %v the next read succeeded; %s", r.err1, desc)
	}
	if e.trip >= 0 {
		if int64(r.handed) > L {
			return "lenform/limit-oversize-handed/" + feature, fmt.Sprintf("%d payload bytes of one message were handed to the application under read limit %d before the read failed with %v; %s", r.handed, L, r.err1, desc)
		}
		if r.err1 != websocket.ErrReadLimit {
			return "lenform/no-limit-error/" + feature, fmt.Sprintf("%s: the read ended with %v, the limit error is demanded; %s", why, r.err1, desc)
		}
	}
	// replies
	of, rest := wsref.ParseAll(r.out)
	if len(rest) != 0 {
		return "lenform/reply-garbage", fmt.Sprintf("the endpoint's replies do not parse as whole frames (%d trailing bytes); %s", len(rest), desc)
	}
	if _, err := wsref.SenderCheck(of, !cs.Cfg.Server, cs.Cfg.Compression); err != nil {
		return "lenform/reply-invalid", "the endpoint's replies violate the sender rules: " + err.Error() + "; " + desc
	}
	var pongs [][]byte
	var closeF *wsref.Frame
	for i := range of {
		switch {
		case closeF != nil:
			return "lenform/reply-after-close", fmt.Sprintf("frame %v follows the endpoint's Close frame; %s", of[i], desc)
		case of[i].Opcode == wsref.OpPong:
			pongs = append(pongs, of[i].Payload)
		case of[i].Opcode == wsref.OpClose:
			closeF = &of[i]
		default:
			return "lenform/reply-unexpected", fmt.Sprintf("unexpected frame %v written by a reader; %s", of[i], desc)
		}
	}
	allowed := append(append([][]byte{}, e.pongs...), e.laterPing...)
	if len(pongs) < len(e.pongs) || len(pongs) > len(allowed) {
		return "lenform/pong-count/" + feature, fmt.Sprintf("%d pongs sent, %d pings were received before the end of reading (%s); %s", len(pongs), len(e.pongs), why, desc)
	}
	for i := range pongs {
		if !bytes.Equal(pongs[i], allowed[i]) {
			return "lenform/pong-payload/" + feature, fmt.Sprintf("pong %d carries %s, the ping carried %s; %s", i, hl.Hex(pongs[i]), hl.Hex(allowed[i]), desc)
		}
	}
	replyCode := -1
	if closeF != nil && len(closeF.Payload) >= 2 {
		replyCode = int(binary.BigEndian.Uint16(closeF.Payload))
	}
	switch {
	case e.failed == "64-bit length with the top bit set":
		// demanded: never accepted (nothing delivered from it, error, permanent: judged above)
	case e.failed != "":
		if e.limitAlt && r.err1 == websocket.ErrReadLimit {
			break // the frame also exceeds the read limit: the statement does not order the two failures
		}
		if replyCode != 1002 {
			got := "no Close frame"
			if closeF != nil {
				got = "a Close frame with payload " + hl.Hex(closeF.Payload)
			}
			return "lenform/no-1002-close/" + feature, fmt.Sprintf("%s: the read ended with %q (%T) and the endpoint sent %s, not a Close frame with status 1002 (replies: %v); %s", why, r.err1.Error(), r.err1, got, of, desc)
		}
	case e.trip >= 0:
		// the Close written with the limit error is not judged
	case e.closed:
		ce, ok := r.err1.(*websocket.CloseError)
		if !ok || ce.Code != e.closeCode {
			return "lenform/close-error/" + feature, fmt.Sprintf("valid Close (code %d) received: the read error is %v (%T); %s", e.closeCode, r.err1, r.err1, desc)
		}
		if closeF == nil {
			return "lenform/close-not-echoed/" + feature, "valid Close received but no Close frame was sent back; " + desc
		}
	default:
		if replyCode == 1002 {
			return "lenform/spurious-1002/" + feature, fmt.Sprintf("a conformant stream that merely ends was answered with a 1002 Close (err %v); %s", r.err1, desc)
		}
	}
	return "", ""
}

func (cs lfCase) String() string {
	return fmt.Sprintf("server=%v compression=%v limit=%d one-byte reads=%v context=%s X=%s", cs.Cfg.Server, cs.Cfg.Compression, cs.Cfg.Limit, cs.OneByte, cs.Ctx, cs.X)
}

func (h *harness) lenFormCase(cs lfCase) {
	h.confirmed(func() { h.lenFormCase1(cs) })
}

func (h *harness) lenFormCase1(cs lfCase) {
	c := h.c
	pl := lfBuild(cs)
	e := lfExpectation(cs, pl, false)
	if e.unjudged {
		return // 1-byte Close payload in the 7-bit form: outside the judged set (see assumptions)
	}
	if !h.probing {
		c.Eval()
		c.Add("lenform_cases", 1)
		c.Add("traces_validated_against_impl", 1)
	}
	r := lcReadAll(cs.Cfg, pl.wire, cs.OneByte, len(pl.frames)+3)
	desc := fmt.Sprintf("%s; frames [%s]; wire %s", cs.String(), strings.Join(pl.names, " "), hl.Hex(pl.wire))
	key, what := lfCompare(cs, r, e, desc)
	x := pl.frames[pl.xIdx]
	if key != "" && !strings.HasPrefix(key, "panic/") && lfIsDataOp(x.Opcode) && lfForm(x) != wsref.MinimalForm(x.Len) {
		// a non-minimal data frame: the reading that refuses it is accepted as well
		if e2 := lfExpectation(cs, pl, true); !e2.unjudged {
			if k2, _ := lfCompare(cs, r, e2, desc); k2 == "" {
				if !h.probing {
					c.Add("lenform_nonminimal_data_refused", 1)
				}
				key = ""
			}
		}
	}
	if key != "" {
		h.violation(key, what, cs)
		return
	}
	if !h.probing {
		c.Nontrivial("lenform/" + cs.String())
		c.Distinct("states", fmt.Sprintf("lenform/%v/%s/%s/op%d/form%d", cs.Cfg.Server, cs.Ctx, e.feature(cs.X), cs.X.Op, cs.X.Form))
	}
}

// lfLimits: the read limits tried for one frame under test (0 = none).
func lfLimits(x lfFrame) []int64 {
	set := map[int64]bool{0: true, 1000: true}
	if x.Rsv == 0 && !x.Wrong && uint64(x.Val) < lfClaimed {
		// the message X belongs to (or interrupts) has v, v+1 or v+2 payload bytes: L-1, L, L+1 around each of them
		for d := int64(-1); d <= 3; d++ {
			if l := int64(x.Val) + d; l >= 1 {
				set[l] = true
			}
		}
	}
	var ls []int64
	for l := range set {
		ls = append(ls, l)
	}
	sort.Slice(ls, func(i, j int) bool { return ls[i] < ls[j] }) // every shard enumerates in the same order
	return ls
}

func (h *harness) lenFormFamily() {
	c := h.c
	th := c.Thorough()
	oneByte := []bool{false}
	if th {
		oneByte = []bool{false, true}
	}
	ctxs := lfContexts(th)
	c.Info("lenform_contexts", len(ctxs))
	nval := 0
	for _, form := range []int{7, 16, 64} {
		nval += len(lfValues(form, th))
	}
	c.Info("lenform_form_value_pairs", nval)
	mine := 0
	for _, ob := range oneByte {
		for _, cf := range []cfg{{Server: true}, {Server: false}, {Server: true, Compression: true}, {Server: false, Compression: true}} {
			rsvs := []byte{0, 1, 2, 4}
			if cf.Compression {
				rsvs = []byte{0, 2, 4} // RSV1 under negotiated compression needs a deflate stream: C13 and the depth-first part
			}
			for _, ctx := range ctxs {
				for _, op := range []byte{9, 10, 8, 1, 2, 0, 3, 11} {
					for _, form := range []int{7, 16, 64} {
						for _, val := range lfValues(form, th) {
							h.idx++
							if !c.Mine(h.idx) {
								continue
							}
							for _, fin := range []bool{true, false} {
								for _, rsv := range rsvs {
									for _, wrong := range []bool{false, true} {
										x := lfFrame{Op: op, Fin: fin, Rsv: rsv, Wrong: wrong, Form: form, Val: lfLen(val)}
										for _, L := range lfLimits(x) {
											cl := cf
											cl.Limit = L
											h.lenFormCase(lfCase{Part: "lenform", Cfg: cl, OneByte: ob, Ctx: ctx, X: x})
										}
									}
								}
							}
							if mine++; mine%8 == 0 && c.Expired() {
								return
							}
						}
					}
				}
			}
		}
	}
}

func replayLenForm(c *hl.Ctx, raw json.RawMessage) {
	var cs lfCase
	if err := json.Unmarshal(raw, &cs); err != nil {
		panic(err)
	}
	(&harness{c: c}).lenFormCase(cs)
}
