// Package wsref is an independent RFC 6455 frame codec and receiver state
// machine (plus the RFC 7692 permessage-deflate payload transform) written
// from the RFCs. It shares no code with the library.
package wsref

import (
	"bytes"
	"compress/flate"
	"encoding/binary"
	"fmt"
	"io"
	"unicode/utf8"
)

const (
	OpCont   = 0
	OpText   = 1
	OpBinary = 2
	OpClose  = 8
	OpPing   = 9
	OpPong   = 10
)

// Frame is one frame; Payload is unmasked.
type Frame struct {
	Fin              bool
	Rsv1, Rsv2, Rsv3 bool
	Opcode           byte
	Masked           bool
	Key              [4]byte
	LenForm          int    // 7, 16 or 64: which length encoding is used on the wire
	Len              uint64 // declared payload length
	Payload          []byte // may be shorter than Len for dishonest frames (generator only)
	Start, End       int    // byte range in the parsed stream
}

func (f Frame) String() string {
	return fmt.Sprintf("{fin=%v rsv=%v%v%v op=%d mask=%v lenform=%d len=%d}", f.Fin, b2i(f.Rsv1), b2i(f.Rsv2), b2i(f.Rsv3), f.Opcode, f.Masked, f.LenForm, f.Len)
}

func b2i(b bool) int {
	if b {
		return 1
	}
	return 0
}

// MinimalForm is the length encoding RFC 6455 5.2 requires ("the minimal number of bytes MUST be used").
func MinimalForm(n uint64) int {
	switch {
	case n <= 125:
		return 7
	case n <= 65535:
		return 16
	}
	return 64
}

// Bytes serialises the frame. LenForm 0 means minimal.
func (f Frame) Bytes() []byte {
	var b []byte
	b0 := f.Opcode & 0x0f
	if f.Fin {
		b0 |= 0x80
	}
	if f.Rsv1 {
		b0 |= 0x40
	}
	if f.Rsv2 {
		b0 |= 0x20
	}
	if f.Rsv3 {
		b0 |= 0x10
	}
	form := f.LenForm
	if form == 0 {
		form = MinimalForm(f.Len)
	}
	b1 := byte(0)
	if f.Masked {
		b1 = 0x80
	}
	switch form {
	case 7:
		b = append(b, b0, b1|byte(f.Len&0x7f))
	case 16:
		b = append(b, b0, b1|126, byte(f.Len>>8), byte(f.Len))
	case 64:
		b = append(b, b0, b1|127)
		var l [8]byte
		binary.BigEndian.PutUint64(l[:], f.Len)
		b = append(b, l[:]...)
	}
	if f.Masked {
		b = append(b, f.Key[:]...)
		for i, c := range f.Payload {
			b = append(b, c^f.Key[i%4])
		}
	} else {
		b = append(b, f.Payload...)
	}
	return b
}

// ParseOne parses one frame at the start of p. ok=false means p holds only
// part of a frame (need more bytes); n is the frame's total size.
func ParseOne(p []byte) (f Frame, n int, ok bool) {
	if len(p) < 2 {
		return f, 0, false
	}
	f.Fin = p[0]&0x80 != 0
	f.Rsv1 = p[0]&0x40 != 0
	f.Rsv2 = p[0]&0x20 != 0
	f.Rsv3 = p[0]&0x10 != 0
	f.Opcode = p[0] & 0x0f
	f.Masked = p[1]&0x80 != 0
	l := uint64(p[1] & 0x7f)
	n = 2
	f.LenForm = 7
	switch l {
	case 126:
		if len(p) < n+2 {
			return f, 0, false
		}
		l = uint64(binary.BigEndian.Uint16(p[n:]))
		n += 2
		f.LenForm = 16
	case 127:
		if len(p) < n+8 {
			return f, 0, false
		}
		l = binary.BigEndian.Uint64(p[n:])
		n += 8
		f.LenForm = 64
	}
	f.Len = l
	if f.Masked {
		if len(p) < n+4 {
			return f, 0, false
		}
		copy(f.Key[:], p[n:n+4])
		n += 4
	}
	if l > uint64(len(p)-n) {
		return f, 0, false
	}
	f.Payload = make([]byte, l)
	copy(f.Payload, p[n:n+int(l)])
	if f.Masked {
		for i := range f.Payload {
			f.Payload[i] ^= f.Key[i%4]
		}
	}
	n += int(l)
	return f, n, true
}

// ParseAll splits a byte stream into frames; rest is a trailing partial frame.
func ParseAll(p []byte) (frames []Frame, rest []byte) {
	off := 0
	for off < len(p) {
		f, n, ok := ParseOne(p[off:])
		if !ok {
			break
		}
		f.Start, f.End = off, off+n
		frames = append(frames, f)
		off += n
	}
	return frames, p[off:]
}

func IsControl(op byte) bool { return op >= 8 }

// Message is a reassembled data message.
type Message struct {
	Opcode     byte
	Payload    []byte
	Compressed bool
}

// SenderCheck validates a frame sequence put on the wire by an endpoint
// (fromClient tells which) against the sender-side rules of RFC 6455/7692 and
// returns the data messages (inflated) and control frames in order.
type Event struct {
	Control bool
	Opcode  byte
	Payload []byte
}

func SenderCheck(frames []Frame, fromClient bool, compressionNegotiated bool) ([]Event, error) {
	var evs []Event
	var cur *Message
	for i, f := range frames {
		if f.Rsv2 || f.Rsv3 {
			return evs, fmt.Errorf("frame %d %v: RSV2/RSV3 set", i, f)
		}
		if f.Masked != fromClient {
			return evs, fmt.Errorf("frame %d %v: mask bit %v but sender is client=%v", i, f, f.Masked, fromClient)
		}
		if f.LenForm != MinimalForm(f.Len) {
			return evs, fmt.Errorf("frame %d %v: length %d not in minimal form", i, f, f.Len)
		}
		switch f.Opcode {
		case OpClose, OpPing, OpPong:
			if !f.Fin {
				return evs, fmt.Errorf("frame %d %v: fragmented control frame", i, f)
			}
			if f.Len > 125 {
				return evs, fmt.Errorf("frame %d %v: control frame longer than 125", i, f)
			}
			if f.Rsv1 {
				return evs, fmt.Errorf("frame %d %v: RSV1 on a control frame", i, f)
			}
			evs = append(evs, Event{Control: true, Opcode: f.Opcode, Payload: f.Payload})
		case OpText, OpBinary:
			if cur != nil {
				return evs, fmt.Errorf("frame %d %v: new data frame inside a fragmented message", i, f)
			}
			if f.Rsv1 && !compressionNegotiated {
				return evs, fmt.Errorf("frame %d %v: RSV1 without negotiated compression", i, f)
			}
			cur = &Message{Opcode: f.Opcode, Payload: append([]byte{}, f.Payload...), Compressed: f.Rsv1}
		case OpCont:
			if cur == nil {
				return evs, fmt.Errorf("frame %d %v: continuation without a started message", i, f)
			}
			if f.Rsv1 {
				return evs, fmt.Errorf("frame %d %v: RSV1 on a continuation frame", i, f)
			}
			cur.Payload = append(cur.Payload, f.Payload...)
		default:
			return evs, fmt.Errorf("frame %d %v: reserved opcode", i, f)
		}
		if !IsControl(f.Opcode) && f.Fin {
			p := cur.Payload
			if cur.Compressed {
				var err error
				if p, err = Inflate(p); err != nil {
					return evs, fmt.Errorf("frame %d: message does not inflate: %v", i, err)
				}
			}
			evs = append(evs, Event{Opcode: cur.Opcode, Payload: p})
			cur = nil
		}
	}
	if cur != nil {
		return evs, fmt.Errorf("message left unfinished at end of stream")
	}
	return evs, nil
}

// Inflate undoes the RFC 7692 7.2.1 transform: append 00 00 ff ff and inflate.
func Inflate(p []byte) ([]byte, error) {
	r := flate.NewReader(io.MultiReader(bytes.NewReader(p), bytes.NewReader([]byte{0x00, 0x00, 0xff, 0xff, 0x01, 0x00, 0x00, 0xff, 0xff})))
	defer r.Close()
	return io.ReadAll(r)
}

// Deflate applies the RFC 7692 7.2.1 transform (compress, flush, strip 00 00 ff ff).
func Deflate(p []byte, level int) []byte {
	var b bytes.Buffer
	w, _ := flate.NewWriter(&b, level)
	w.Write(p)
	w.Flush()
	out := b.Bytes()
	if len(out) >= 4 && bytes.Equal(out[len(out)-4:], []byte{0, 0, 0xff, 0xff}) {
		out = out[:len(out)-4]
	}
	return out
}

// ------------------------------------------------------------- receiver

// ValidCloseCode: codes a peer may send (RFC 6455 7.4.1/7.4.2).
func ValidCloseCode(c int) bool {
	switch {
	case c >= 1000 && c <= 1003, c >= 1007 && c <= 1013:
		return true
	case c >= 3000 && c <= 4999:
		return true
	}
	return false
}

// Receiver is a conformant RFC 6455 receiver for one endpoint role.
type Receiver struct {
	IsServer    bool // receiver role: a server requires masked frames
	Compression bool // permessage-deflate negotiated
	Delivered   []Message
	Pongs       [][]byte // pong payloads owed, in order
	Failed      string   // first rule violation ("" = none)
	FailedAt    int      // index of the offending frame
	Closed      bool     // a valid Close was received
	CloseCode   int
	// Unjudged is set when the input leaves the judged set (1-byte close payload): the library's
	// behaviour from then on is not demanded either way.
	Unjudged bool
	cur      *Message
	n        int
}

// Frame feeds one frame (as generated, with its declared length) to the receiver.
func (r *Receiver) Frame(f Frame) {
	if r.Failed != "" || r.Closed || r.Unjudged {
		return
	}
	idx := r.n
	r.n++
	fail := func(s string) { r.Failed, r.FailedAt = s, idx }
	if f.Rsv2 || f.Rsv3 {
		fail("reserved bits")
		return
	}
	if f.Rsv1 && !r.Compression {
		fail("reserved bits")
		return
	}
	switch f.Opcode {
	case OpClose, OpPing, OpPong:
		if f.Len > 125 {
			fail("oversized control frame")
			return
		}
		if !f.Fin {
			fail("fragmented control frame")
			return
		}
	case OpText, OpBinary:
		if r.cur != nil {
			fail("new data frame inside a fragmented message")
			return
		}
	case OpCont:
		if r.cur == nil {
			fail("continuation without a started message")
			return
		}
	default:
		fail("reserved opcode")
		return
	}
	if f.LenForm == 64 && f.Len>>63 != 0 {
		fail("64-bit length with the top bit set")
		return
	}
	if f.Masked != r.IsServer {
		fail("wrong masking for the role")
		return
	}
	switch f.Opcode {
	case OpPing:
		r.Pongs = append(r.Pongs, f.Payload)
	case OpPong:
	case OpClose:
		if len(f.Payload) == 1 {
			r.Unjudged = true
			return
		}
		code := 1005
		if len(f.Payload) >= 2 {
			code = int(binary.BigEndian.Uint16(f.Payload))
			if !ValidCloseCode(code) {
				fail("invalid close code")
				return
			}
			if !utf8.Valid(f.Payload[2:]) {
				fail("non-UTF-8 close reason")
				return
			}
		}
		r.Closed, r.CloseCode = true, code
	case OpText, OpBinary:
		r.cur = &Message{Opcode: f.Opcode, Payload: append([]byte{}, f.Payload...), Compressed: f.Rsv1}
	case OpCont:
		r.cur.Payload = append(r.cur.Payload, f.Payload...)
	}
	if !IsControl(f.Opcode) && f.Fin {
		r.Delivered = append(r.Delivered, *r.cur)
		r.cur = nil
	}
}

// Open reports whether a fragmented message is in progress.
func (r *Receiver) Open() bool { return r.cur != nil }

// Clone copies the receiver state.
func (r *Receiver) Clone() *Receiver {
	c := *r
	c.Delivered = append([]Message{}, r.Delivered...)
	c.Pongs = append([][]byte{}, r.Pongs...)
	if r.cur != nil {
		m := *r.cur
		m.Payload = append([]byte{}, r.cur.Payload...)
		c.cur = &m
	}
	return &c
}

// Running reports whether the receiver still accepts frames.
func (r *Receiver) Running() bool { return r.Failed == "" && !r.Closed && !r.Unjudged }
