// Package jsonref is the reference side of C17: a JSON lexer written from
// RFC 8259 section 2-7, a minimal string quoter, and the comment decorator that
// places C++-style comments at token boundaries. It shares no code with the
// library under test and does not import it.
package jsonref

import (
	"bytes"
	"fmt"
)

// Tokenize splits a JSON text into its tokens (structural characters, strings
// including their quotes, numbers, literals). Insignificant whitespace
// (space, tab, LF, CR) between tokens is skipped. It validates the lexical
// grammar only (string escapes, number syntax), not the nesting.
func Tokenize(b []byte) ([][]byte, error) {
	var toks [][]byte
	i := 0
	for i < len(b) {
		c := b[i]
		switch {
		case c == ' ' || c == '\t' || c == '\n' || c == '\r':
			i++
		case c == '{' || c == '}' || c == '[' || c == ']' || c == ':' || c == ',':
			toks = append(toks, b[i:i+1])
			i++
		case c == '"':
			j, err := stringEnd(b, i)
			if err != nil {
				return toks, err
			}
			toks = append(toks, b[i:j])
			i = j
		case c == '-' || (c >= '0' && c <= '9'):
			j, err := numberEnd(b, i)
			if err != nil {
				return toks, err
			}
			toks = append(toks, b[i:j])
			i = j
		case c == 't' || c == 'f' || c == 'n':
			var lit string
			switch c {
			case 't':
				lit = "true"
			case 'f':
				lit = "false"
			default:
				lit = "null"
			}
			if !bytes.HasPrefix(b[i:], []byte(lit)) {
				return toks, fmt.Errorf("offset %d: bad literal", i)
			}
			toks = append(toks, b[i:i+len(lit)])
			i += len(lit)
		default:
			return toks, fmt.Errorf("offset %d: unexpected byte %#x", i, c)
		}
	}
	return toks, nil
}

func isHex(c byte) bool {
	return c >= '0' && c <= '9' || c >= 'a' && c <= 'f' || c >= 'A' && c <= 'F'
}

// stringEnd returns the offset just past the closing quote of the string
// starting at b[i] == '"' (RFC 8259 section 7).
func stringEnd(b []byte, i int) (int, error) {
	j := i + 1
	for j < len(b) {
		c := b[j]
		switch {
		case c == '"':
			return j + 1, nil
		case c == '\\':
			if j+1 >= len(b) {
				return 0, fmt.Errorf("offset %d: escape at end of input", j)
			}
			switch b[j+1] {
			case '"', '\\', '/', 'b', 'f', 'n', 'r', 't':
				j += 2
			case 'u':
				if j+6 > len(b) || !isHex(b[j+2]) || !isHex(b[j+3]) || !isHex(b[j+4]) || !isHex(b[j+5]) {
					return 0, fmt.Errorf("offset %d: bad \\u escape", j)
				}
				j += 6
			default:
				return 0, fmt.Errorf("offset %d: bad escape", j)
			}
		case c < 0x20:
			return 0, fmt.Errorf("offset %d: control character in string", j)
		default:
			j++
		}
	}
	return 0, fmt.Errorf("offset %d: unterminated string", i)
}

// numberEnd: number = [ minus ] int [ frac ] [ exp ] (RFC 8259 section 6).
func numberEnd(b []byte, i int) (int, error) {
	j := i
	if j < len(b) && b[j] == '-' {
		j++
	}
	if j >= len(b) {
		return 0, fmt.Errorf("offset %d: bad number", i)
	}
	if b[j] == '0' {
		j++
	} else if b[j] >= '1' && b[j] <= '9' {
		for j < len(b) && b[j] >= '0' && b[j] <= '9' {
			j++
		}
	} else {
		return 0, fmt.Errorf("offset %d: bad number", i)
	}
	if j < len(b) && b[j] == '.' {
		j++
		k := j
		for j < len(b) && b[j] >= '0' && b[j] <= '9' {
			j++
		}
		if j == k {
			return 0, fmt.Errorf("offset %d: bad fraction", i)
		}
	}
	if j < len(b) && (b[j] == 'e' || b[j] == 'E') {
		j++
		if j < len(b) && (b[j] == '+' || b[j] == '-') {
			j++
		}
		k := j
		for j < len(b) && b[j] >= '0' && b[j] <= '9' {
			j++
		}
		if j == k {
			return 0, fmt.Errorf("offset %d: bad exponent", i)
		}
	}
	return j, nil
}

// Quote renders raw as a JSON string with the shortest legal escapes: only
// quotation mark, reverse solidus and control characters are escaped.
func Quote(raw string) string {
	var sb []byte
	sb = append(sb, '"')
	for i := 0; i < len(raw); i++ {
		c := raw[i]
		switch {
		case c == '"':
			sb = append(sb, '\\', '"')
		case c == '\\':
			sb = append(sb, '\\', '\\')
		case c == '\n':
			sb = append(sb, '\\', 'n')
		case c == '\r':
			sb = append(sb, '\\', 'r')
		case c == '\t':
			sb = append(sb, '\\', 't')
		case c < 0x20:
			sb = append(sb, []byte(fmt.Sprintf("\\u%04x", c))...)
		default:
			sb = append(sb, c)
		}
	}
	return string(append(sb, '"'))
}

// QuoteAlt renders raw with the alternative legal spellings: the solidus as
// "\/", and quotation mark / reverse solidus / control characters as \uXXXX.
// The decoded value is the same as for Quote.
func QuoteAlt(raw string) string {
	var sb []byte
	sb = append(sb, '"')
	for i := 0; i < len(raw); i++ {
		c := raw[i]
		switch {
		case c == '/':
			sb = append(sb, '\\', '/')
		case c == '"' || c == '\\' || c < 0x20:
			sb = append(sb, []byte(fmt.Sprintf("\\u%04x", c))...)
		default:
			sb = append(sb, c)
		}
	}
	return string(append(sb, '"'))
}

// Decorations is the alphabet placed at token boundaries (index 0 = nothing).
var Decorations = []string{
	"",
	" ",
	"//c\n",
	"/*c*/",
	"// \"q' \n",
	"/* \" ' // */",
	"/**/",
	// extended: slash right after the opener, a newline inside, two stars before the closer
	"/*/\n**/",
	// extended: a line comment that contains a block opener
	"// /*\n",
	// extended: comment text that ends in a backslash right before the terminator (an escape-aware scanner must not
	// treat the terminator as escaped: escapes exist only inside strings)
	"/* c:\\*/",
	"// c:\\\n",
	// extended: the two openers overlap - comment text that starts with the other opener's second character
	// ("//*" contains "/*" one byte in; "/*/" and "///" contain "//" or a closer-like "*/" prefix)
	"//*c\n",
	"///\n",
	"/*//*/",
	"/***/",
}

// BaseDecorations is the number of leading elements of Decorations that form
// the base alphabet; the rest are the extended elements.
const BaseDecorations = 7

// DecorationNames are used in violation keys.
var DecorationNames = []string{"none", "space", "line", "block", "line-quotes", "block-quotes-slashes", "block-empty", "block-slash-newline-stars", "line-with-block-opener", "block-ending-in-backslash", "line-ending-in-backslash", "line-starting-with-star", "line-triple-slash", "block-starting-with-slashes", "block-of-a-star"}

// IsComment reports whether decoration d contains a comment.
func IsComment(d int) bool { return d >= 2 }

// Finals is the alphabet of what may follow the last boundary: nothing, or a
// line comment that is ended by the end of input instead of a newline.
var Finals = []string{"", "//c", "//", "//*"}

// Decorate writes decos[i] before token i, decos[len(tokens)] after the last
// token, and then final. len(decos) must be len(tokens)+1.
func Decorate(dst []byte, tokens []string, decos []uint8, final int) []byte {
	dst = dst[:0]
	for i, t := range tokens {
		dst = append(dst, Decorations[decos[i]]...)
		dst = append(dst, t...)
	}
	dst = append(dst, Decorations[decos[len(tokens)]]...)
	dst = append(dst, Finals[final]...)
	return dst
}
