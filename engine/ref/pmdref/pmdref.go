// Package pmdref is an independent model of the permessage-deflate negotiation (RFC 7692 section 7.1, on the
// Sec-WebSocket-Extensions grammar of RFC 6455 section 9.1) and of the two ways an endpoint may run its LZ77 context
// (RFC 7692 7.1.1: taken over from message to message, or reset for every message). Written from the RFCs; it shares
// no code with the library and does not import it.
package pmdref

import (
	"bytes"
	"compress/flate"
	"fmt"
	"io"
	"strings"
)

const Name = "permessage-deflate"

// Param is one extension parameter as it stands in the header.
type Param struct {
	Name     string
	Value    string
	HasValue bool
}

// Ext is one element of the extension list.
type Ext struct {
	Name   string
	Params []Param
}

func (e Ext) String() string {
	s := e.Name
	for _, p := range e.Params {
		s += "; " + p.Name
		if p.HasValue {
			s += "=" + p.Value
		}
	}
	return s
}

func isTokenChar(c byte) bool {
	// RFC 7230 3.2.6 tchar
	if c >= '0' && c <= '9' || c >= 'a' && c <= 'z' || c >= 'A' && c <= 'Z' {
		return true
	}
	return strings.IndexByte("!#$%&'*+-.^_`|~", c) >= 0
}

type scanner struct {
	s string
	i int
}

func (x *scanner) ows() {
	for x.i < len(x.s) && (x.s[x.i] == ' ' || x.s[x.i] == '\t') {
		x.i++
	}
}

func (x *scanner) token() string {
	j := x.i
	for x.i < len(x.s) && isTokenChar(x.s[x.i]) {
		x.i++
	}
	return x.s[j:x.i]
}

func (x *scanner) peek() byte {
	if x.i < len(x.s) {
		return x.s[x.i]
	}
	return 0
}

// quoted reads a quoted-string (RFC 7230 3.2.6) and returns its unescaped content.
func (x *scanner) quoted() (string, error) {
	if x.peek() != '"' {
		return "", fmt.Errorf("quoted-string expected at offset %d", x.i)
	}
	x.i++
	var b []byte
	for x.i < len(x.s) {
		c := x.s[x.i]
		x.i++
		switch c {
		case '"':
			return string(b), nil
		case '\\':
			if x.i >= len(x.s) {
				return "", fmt.Errorf("unfinished quoted-pair")
			}
			b = append(b, x.s[x.i])
			x.i++
		default:
			b = append(b, c)
		}
	}
	return "", fmt.Errorf("unfinished quoted-string")
}

// ParseHeader parses the values of all Sec-WebSocket-Extensions header lines of one message. Several lines are one
// comma-separated list (RFC 7230 3.2.2); empty list elements are skipped (RFC 7230 7).
//
//	extension-list = 1#extension
//	extension      = extension-token *( ";" extension-param )
//	extension-param = token [ "=" (token | quoted-string) ]
func ParseHeader(values []string) ([]Ext, error) {
	var r []Ext
	for _, v := range values {
		x := &scanner{s: v}
		for {
			x.ows()
			if x.i >= len(x.s) {
				break
			}
			if x.peek() == ',' {
				x.i++
				continue
			}
			name := x.token()
			if name == "" {
				return r, fmt.Errorf("extension token expected at offset %d of %q", x.i, v)
			}
			e := Ext{Name: name}
			for {
				x.ows()
				if x.peek() != ';' {
					break
				}
				x.i++
				x.ows()
				pn := x.token()
				if pn == "" {
					return r, fmt.Errorf("parameter name expected at offset %d of %q", x.i, v)
				}
				p := Param{Name: pn}
				x.ows()
				if x.peek() == '=' {
					x.i++
					x.ows()
					p.HasValue = true
					if x.peek() == '"' {
						q, err := x.quoted()
						if err != nil {
							return r, fmt.Errorf("%v in %q", err, v)
						}
						// RFC 6455 9.1: the unescaped value must itself be a token
						for k := 0; k < len(q); k++ {
							if !isTokenChar(q[k]) {
								return r, fmt.Errorf("quoted parameter value %q is not a token in %q", q, v)
							}
						}
						if q == "" {
							return r, fmt.Errorf("empty quoted parameter value in %q", v)
						}
						p.Value = q
					} else {
						p.Value = x.token()
						if p.Value == "" {
							return r, fmt.Errorf("parameter value expected at offset %d of %q", x.i, v)
						}
					}
				}
				e.Params = append(e.Params, p)
			}
			r = append(r, e)
			x.ows()
			if x.i < len(x.s) && x.peek() != ',' {
				return r, fmt.Errorf("unexpected %q at offset %d of %q", x.peek(), x.i, v)
			}
		}
	}
	return r, nil
}

// Deflate is the parameter set of one permessage-deflate element. Bits 0 = parameter absent; -1 = present without a
// value (client_max_window_bits in an offer only).
type Deflate struct {
	ServerNoContextTakeover bool
	ClientNoContextTakeover bool
	ServerMaxWindowBits     int
	ClientMaxWindowBits     int
}

func windowBits(v string) (int, bool) {
	// "a decimal integer value without leading zeroes between 8 to 15 inclusive" (RFC 7692 7.1.2.1)
	switch v {
	case "8", "9":
		return int(v[0] - '0'), true
	case "10", "11", "12", "13", "14", "15":
		return 10 + int(v[1]-'0'), true
	}
	return 0, false
}

// DeflateParams reads the parameters of a permessage-deflate element under the rules of RFC 7692 7.1: only the four
// defined names, none twice, valid values. offer tells whether the element stands in an offer (client_max_window_bits
// may then lack its value) or in a response (it must carry one).
func DeflateParams(e Ext, offer bool) (Deflate, error) {
	var d Deflate
	seen := map[string]bool{}
	for _, p := range e.Params {
		n := strings.ToLower(p.Name)
		if seen[n] {
			return d, fmt.Errorf("parameter %s appears twice", n)
		}
		seen[n] = true
		switch n {
		case "server_no_context_takeover", "client_no_context_takeover":
			if p.HasValue {
				return d, fmt.Errorf("parameter %s has a value", n)
			}
			if n[0] == 's' {
				d.ServerNoContextTakeover = true
			} else {
				d.ClientNoContextTakeover = true
			}
		case "server_max_window_bits":
			b, ok := windowBits(p.Value)
			if !p.HasValue || !ok {
				return d, fmt.Errorf("parameter %s has the invalid value %q", n, p.Value)
			}
			d.ServerMaxWindowBits = b
		case "client_max_window_bits":
			if !p.HasValue {
				if !offer {
					return d, fmt.Errorf("parameter %s has no value in a response", n)
				}
				d.ClientMaxWindowBits = -1
				break
			}
			b, ok := windowBits(p.Value)
			if !ok {
				return d, fmt.Errorf("parameter %s has the invalid value %q", n, p.Value)
			}
			d.ClientMaxWindowBits = b
		default:
			return d, fmt.Errorf("parameter %s is not defined for permessage-deflate", n)
		}
	}
	return d, nil
}

// Problem is one rule a response breaks; Slug is a short stable name of the rule.
type Problem struct {
	Slug string
	Text string
}

func (p *Problem) Error() string { return p.Text }

// CheckResponse judges the extension list of a server's handshake response against the list the client offered.
// Only what the response CONTAINS is judged (the weakest reading: a client following RFC 6455 4.1 / RFC 7692 7.1 must
// fail the connection for each of these):
//
//   - every extension in the response was offered, by name (RFC 6455 4.1 item 4);
//   - at most one permessage-deflate element;
//   - its parameters are defined for a response, not repeated, with valid values (RFC 7692 7.1);
//   - client_max_window_bits only if an offered element carried it, and then not above the offered value (7.1.2.2);
//     server_max_window_bits not above the value of that offered element (7.1.2.1).
//
// What the response omits is not judged here: the caller behaves as the response permits. agreed is nil when the
// response does not accept permessage-deflate.
func CheckResponse(offered, response []Ext) (agreed *Deflate, prob *Problem) {
	var pmd []Ext
	for _, e := range response {
		found := false
		for _, o := range offered {
			if strings.EqualFold(o.Name, e.Name) {
				found = true
			}
		}
		if !found {
			return nil, &Problem{"extension-not-offered", fmt.Sprintf("the response accepts the extension %q which the client did not offer (RFC 6455 4.1)", e.Name)}
		}
		if strings.EqualFold(e.Name, Name) {
			pmd = append(pmd, e)
		}
	}
	if len(pmd) == 0 {
		return nil, nil
	}
	if len(pmd) > 1 {
		return nil, &Problem{"accepted-twice", "the response carries more than one permessage-deflate element"}
	}
	d, err := DeflateParams(pmd[0], false)
	if err != nil {
		return nil, &Problem{"invalid-parameter", "the response's permessage-deflate element is invalid (RFC 7692 7.1): " + err.Error()}
	}
	// the response must be an acceptance of one of the offered elements
	var why string
	for _, o := range offered {
		if !strings.EqualFold(o.Name, Name) {
			continue
		}
		od, _ := DeflateParams(o, true) // an offer the server should have declined is still the one it answered
		if d.ClientMaxWindowBits != 0 && od.ClientMaxWindowBits == 0 {
			why = "client_max_window_bits in the response although the offer did not carry it (RFC 7692 7.1.2.2)"
			continue
		}
		if d.ClientMaxWindowBits != 0 && od.ClientMaxWindowBits > 0 && d.ClientMaxWindowBits > od.ClientMaxWindowBits {
			why = fmt.Sprintf("client_max_window_bits=%d in the response is above the offered %d", d.ClientMaxWindowBits, od.ClientMaxWindowBits)
			continue
		}
		if d.ServerMaxWindowBits != 0 && od.ServerMaxWindowBits != 0 && d.ServerMaxWindowBits > od.ServerMaxWindowBits {
			why = fmt.Sprintf("server_max_window_bits=%d in the response is above the offered %d", d.ServerMaxWindowBits, od.ServerMaxWindowBits)
			continue
		}
		return &d, nil
	}
	if why == "" {
		why = "no permessage-deflate element was offered"
	}
	return nil, &Problem{"parameter-not-offered", "the response's permessage-deflate element matches none of the offered ones: " + why}
}

// ---------------------------------------------------------------- the payload transform with and without takeover

var syncTail = []byte{0x00, 0x00, 0xff, 0xff}

// Compressor is the sending half of one endpoint (RFC 7692 7.2.1). With Takeover the LZ77 window is kept from message
// to message (one DEFLATE stream, flushed per message); without, every message starts a new stream.
type Compressor struct {
	Level    int
	Takeover bool
	fw       *flate.Writer
	buf      bytes.Buffer
}

// Message compresses one message payload: compress, flush to a byte boundary with an empty stored block, strip the
// trailing 00 00 ff ff.
func (c *Compressor) Message(p []byte) []byte {
	if c.fw == nil || !c.Takeover {
		c.buf.Reset()
		c.fw, _ = flate.NewWriter(&c.buf, c.Level)
	}
	c.buf.Reset()
	c.fw.Write(p)
	c.fw.Flush()
	out := append([]byte{}, c.buf.Bytes()...)
	if !bytes.HasSuffix(out, syncTail) {
		panic("pmdref: flushed DEFLATE data does not end with 00 00 ff ff")
	}
	return out[:len(out)-4]
}

// Decompressor is the receiving half (RFC 7692 7.2.2). With Takeover the window of the earlier compressed messages
// (at most 32768 bytes of their plain text) is the dictionary of the next one.
type Decompressor struct {
	Takeover bool
	hist     []byte
}

func (d *Decompressor) Message(z []byte) ([]byte, error) {
	// 00 00 ff ff restores the stripped tail; the empty final block lets the reader see a proper end of stream
	src := io.MultiReader(bytes.NewReader(z), bytes.NewReader([]byte{0x00, 0x00, 0xff, 0xff, 0x01, 0x00, 0x00, 0xff, 0xff}))
	var r io.ReadCloser
	if d.Takeover && len(d.hist) > 0 {
		r = flate.NewReaderDict(src, d.hist)
	} else {
		r = flate.NewReader(src)
	}
	out, err := io.ReadAll(r)
	r.Close()
	if err != nil {
		return out, err
	}
	if d.Takeover {
		d.hist = append(d.hist, out...)
		if len(d.hist) > 32768 {
			d.hist = append([]byte{}, d.hist[len(d.hist)-32768:]...)
		}
	}
	return out, nil
}
