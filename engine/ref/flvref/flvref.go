// Package flvref is an independent FLV version 1 file writer/parser and an
// independent description of the first bytes of audio and video tag bodies,
// written from Adobe's "Video File Format Specification Version 10", Annex E
// (E.2 The FLV header, E.3 The FLV file body, E.4.1 FLV tags, E.4.2 audio tags,
// E.4.3 video tags). It shares no code with the library and never imports it.
//
// Two layouts are extensions that the Adobe document does not define; they are
// taken from the documentation of the code under test and marked as such:
// sound format 13 = Opus (first byte, flag byte, optional sampling-rate byte,
// optional 16-bit level) and video codec 12 = HEVC (same layout as AVC).
package flvref

import "fmt"

// ---------------------------------------------------------------------------
// File layout (E.2, E.3, E.4.1)

const (
	HeaderLen    = 9  // signature(3) version(1) flags(1) data offset(4)
	TagHeaderLen = 11 // type(1) data size(3) timestamp(3) timestamp extended(1) stream id(3)
	MaxBody      = 1<<24 - 1
)

// Tag is one FLV tag as the file layout sees it.
type Tag struct {
	Type      uint8  // whole first byte of the tag header
	Timestamp uint32 // TimestampExtended<<24 | Timestamp
	Body      []byte
}

// Header is the parsed FLV header.
type Header struct {
	Version    uint8
	Flags      uint8
	HasAudio   bool
	HasVideo   bool
	DataOffset uint32
}

// LayoutError says which field of the layout a file violates.
type LayoutError struct {
	Field  string // signature, version, flags, data-offset, prev-tag-size0, tag-header, stream-id, body, prev-tag-size, trailing
	Offset int
	Msg    string
}

func (e *LayoutError) Error() string {
	return fmt.Sprintf("%s at offset %d: %s", e.Field, e.Offset, e.Msg)
}

func be24(v uint32) []byte { return []byte{byte(v >> 16), byte(v >> 8), byte(v)} }
func be32(v uint32) []byte { return []byte{byte(v >> 24), byte(v >> 16), byte(v >> 8), byte(v)} }

// AppendHeader appends the 9-byte FLV header followed by PreviousTagSize0.
func AppendHeader(dst []byte, hasVideo, hasAudio bool) []byte {
	var flags byte // UB5 reserved=0, UB1 audio, UB1 reserved=0, UB1 video
	if hasAudio {
		flags += 4
	}
	if hasVideo {
		flags += 1
	}
	dst = append(dst, 'F', 'L', 'V', 1, flags)
	dst = append(dst, be32(HeaderLen)...)
	dst = append(dst, be32(0)...) // PreviousTagSize0
	return dst
}

// AppendTag appends one tag and the PreviousTagSize field that follows it.
func AppendTag(dst []byte, t Tag) ([]byte, error) {
	n := len(t.Body)
	if n > MaxBody {
		return dst, fmt.Errorf("body of %d bytes does not fit the 24-bit DataSize", n)
	}
	dst = append(dst, t.Type)
	dst = append(dst, be24(uint32(n))...)
	dst = append(dst, be24(t.Timestamp%(1<<24))...) // lower 24 bits
	dst = append(dst, byte(t.Timestamp/(1<<24)))    // TimestampExtended: upper 8 bits
	dst = append(dst, be24(0)...)                   // StreamID, always 0
	dst = append(dst, t.Body...)
	dst = append(dst, be32(uint32(TagHeaderLen+n))...)
	return dst, nil
}

// FileLen is the length of a file holding bodies of the given sizes.
func FileLen(sizes []int) int {
	n := HeaderLen + 4
	for _, s := range sizes {
		n += TagHeaderLen + s + 4
	}
	return n
}

// WriteFile produces a complete FLV version 1 file.
func WriteFile(hasVideo, hasAudio bool, tags []Tag) ([]byte, error) {
	sizes := make([]int, len(tags))
	for i := range tags {
		sizes[i] = len(tags[i].Body)
	}
	out := make([]byte, 0, FileLen(sizes))
	out = AppendHeader(out, hasVideo, hasAudio)
	var err error
	for _, t := range tags {
		if out, err = AppendTag(out, t); err != nil {
			return nil, err
		}
	}
	return out, nil
}

func u24(b []byte) uint32 { return uint32(b[0])*65536 + uint32(b[1])*256 + uint32(b[2]) }
func u32(b []byte) uint32 {
	return uint32(b[0])*16777216 + uint32(b[1])*65536 + uint32(b[2])*256 + uint32(b[3])
}

// Parse is a strict parser of the layout: every fixed field must hold the
// value the specification gives it and the file must end after a
// PreviousTagSize field. Tag bodies alias the input.
func Parse(b []byte) (Header, []Tag, error) {
	var h Header
	if len(b) < HeaderLen {
		return h, nil, &LayoutError{"header", len(b), "file shorter than the 9-byte header"}
	}
	if b[0] != 'F' || b[1] != 'L' || b[2] != 'V' {
		return h, nil, &LayoutError{"signature", 0, fmt.Sprintf("% x is not 'FLV'", b[:3])}
	}
	h.Version = b[3]
	if h.Version != 1 {
		return h, nil, &LayoutError{"version", 3, fmt.Sprintf("version %d, want 1", h.Version)}
	}
	h.Flags = b[4]
	if h.Flags&^5 != 0 {
		return h, nil, &LayoutError{"flags", 4, fmt.Sprintf("reserved flag bits set: %#02x", h.Flags)}
	}
	h.HasAudio = h.Flags&4 != 0
	h.HasVideo = h.Flags&1 != 0
	h.DataOffset = u32(b[5:9])
	if h.DataOffset != HeaderLen {
		return h, nil, &LayoutError{"data-offset", 5, fmt.Sprintf("data offset %d, want 9", h.DataOffset)}
	}
	p := HeaderLen
	if len(b) < p+4 {
		return h, nil, &LayoutError{"prev-tag-size0", p, "PreviousTagSize0 missing"}
	}
	if v := u32(b[p : p+4]); v != 0 {
		return h, nil, &LayoutError{"prev-tag-size0", p, fmt.Sprintf("PreviousTagSize0 = %d, want 0", v)}
	}
	p += 4
	var tags []Tag
	for p < len(b) {
		if len(b)-p < TagHeaderLen {
			return h, tags, &LayoutError{"tag-header", p, fmt.Sprintf("%d trailing bytes, not a whole tag header", len(b)-p)}
		}
		th := b[p : p+TagHeaderLen]
		n := int(u24(th[1:4]))
		ts := uint32(th[7])*(1<<24) + u24(th[4:7])
		if sid := u24(th[8:11]); sid != 0 {
			return h, tags, &LayoutError{"stream-id", p + 8, fmt.Sprintf("stream id %d, want 0", sid)}
		}
		p += TagHeaderLen
		if len(b)-p < n {
			return h, tags, &LayoutError{"body", p, fmt.Sprintf("DataSize %d but only %d bytes left", n, len(b)-p)}
		}
		body := b[p : p+n : p+n]
		p += n
		if len(b)-p < 4 {
			return h, tags, &LayoutError{"prev-tag-size", p, "PreviousTagSize missing after the tag"}
		}
		if v := u32(b[p : p+4]); v != uint32(TagHeaderLen+n) {
			return h, tags, &LayoutError{"prev-tag-size", p, fmt.Sprintf("PreviousTagSize = %d after a tag of 11+%d bytes", v, n)}
		}
		p += 4
		tags = append(tags, Tag{Type: th[0], Timestamp: ts, Body: body})
	}
	return h, tags, nil
}

// FieldAt names the layout field that byte offset off of a file with the given
// body sizes belongs to (used to label a byte difference).
func FieldAt(sizes []int, off int) string {
	switch {
	case off < 3:
		return "signature"
	case off < 4:
		return "version"
	case off < 5:
		return "flags"
	case off < 9:
		return "data-offset"
	case off < 13:
		return "prev-tag-size0"
	}
	p := 13
	for _, n := range sizes {
		r := off - p
		switch {
		case r < 0:
		case r < 1:
			return "tag-type"
		case r < 4:
			return "data-size"
		case r < 7:
			return "timestamp"
		case r < 8:
			return "timestamp-extended"
		case r < 11:
			return "stream-id"
		case r < 11+n:
			return "body"
		case r < 15+n:
			return "prev-tag-size"
		}
		p += 15 + n
	}
	return "trailing"
}

// ---------------------------------------------------------------------------
// Audio tag body (E.4.2.1 AUDIODATA, AACAUDIODATA)

const (
	SoundFormatAAC  = 10
	SoundFormatOpus = 13 // extension, not in the Adobe specification
	// Opus flag byte (extension): which side fields follow it.
	OpusFlagRate  = 0x04 // one byte: sampling rate in kHz
	OpusFlagLevel = 0x08 // two bytes: audio level, big-endian like every FLV integer
)

// SoundRateHz is the SoundRate table of E.4.2.1 (5.5, 11, 22, 44 kHz).
var SoundRateHz = [4]int{5512, 11025, 22050, 44100}

// OpusRates are the sampling rates Opus defines (RFC 6716 section 2), in kHz.
var OpusRates = []uint8{8, 12, 16, 24, 48}

// OpusRateHz converts an Opus rate code (kHz) to Hz; ok=false if undefined.
func OpusRateHz(khz uint8) (int, bool) {
	for _, r := range OpusRates {
		if r == khz {
			return int(khz) * 1000, true
		}
	}
	return 0, false
}

// Audio is an audio tag body split into its fields.
type Audio struct {
	Format   uint8 // UB4 SoundFormat
	Rate     uint8 // UB2 SoundRate (zero for Opus)
	Size     uint8 // UB1 SoundSize
	Channels uint8 // UB1 SoundType
	// PacketType is the AACPacketType (AAC) or the flag byte (Opus); absent otherwise.
	PacketType uint8
	OpusRate   uint8  // present iff Opus and PacketType&OpusFlagRate
	OpusLevel  uint16 // present iff Opus and PacketType&OpusFlagLevel
	Payload    []byte
}

// AudioFirstByte packs SoundFormat(4) SoundRate(2) SoundSize(1) SoundType(1).
func AudioFirstByte(format, rate, size, channels uint8) byte {
	return byte(format%16*16 + rate%4*4 + size%2*2 + channels%2)
}

// SplitAudioFirstByte is the inverse of AudioFirstByte.
func SplitAudioFirstByte(b byte) (format, rate, size, channels uint8) {
	return b / 16, b / 4 % 4, b / 2 % 2, b % 2
}

// AudioBody writes the tag body for a.
func AudioBody(a Audio) []byte {
	out := []byte{AudioFirstByte(a.Format, a.Rate, a.Size, a.Channels)}
	switch a.Format {
	case SoundFormatAAC:
		out = append(out, a.PacketType)
	case SoundFormatOpus:
		out = append(out, a.PacketType)
		if a.PacketType&OpusFlagRate != 0 {
			out = append(out, a.OpusRate)
		}
		if a.PacketType&OpusFlagLevel != 0 {
			out = append(out, byte(a.OpusLevel/256), byte(a.OpusLevel%256))
		}
	}
	return append(out, a.Payload...)
}

// ParseAudio splits a tag body; it fails only when a field the format
// requires is cut short.
func ParseAudio(b []byte) (Audio, error) {
	var a Audio
	if len(b) < 1 {
		return a, fmt.Errorf("empty audio body")
	}
	a.Format, a.Rate, a.Size, a.Channels = SplitAudioFirstByte(b[0])
	p := b[1:]
	switch a.Format {
	case SoundFormatAAC:
		if len(p) < 1 {
			return a, fmt.Errorf("AACPacketType missing")
		}
		a.PacketType, p = p[0], p[1:]
	case SoundFormatOpus:
		if len(p) < 1 {
			return a, fmt.Errorf("Opus flag byte missing")
		}
		a.PacketType, p = p[0], p[1:]
		if a.PacketType&OpusFlagRate != 0 {
			if len(p) < 1 {
				return a, fmt.Errorf("Opus sampling-rate byte missing")
			}
			a.OpusRate, p = p[0], p[1:]
		}
		if a.PacketType&OpusFlagLevel != 0 {
			if len(p) < 2 {
				return a, fmt.Errorf("Opus audio level cut short")
			}
			a.OpusLevel, p = uint16(p[0])*256+uint16(p[1]), p[2:]
		}
	}
	a.Payload = p
	return a, nil
}

// AudioCanonical reports whether a body parsed to a is one a frame of the
// statement's domain produces: for Opus the two rate bits of the first byte are
// zero and a present sampling-rate byte holds a defined Opus rate.
func AudioCanonical(a Audio) bool {
	if a.Format != SoundFormatOpus {
		return true
	}
	if a.Rate != 0 {
		return false
	}
	if a.PacketType&OpusFlagRate != 0 {
		if _, ok := OpusRateHz(a.OpusRate); !ok {
			return false
		}
	}
	return true
}

// ---------------------------------------------------------------------------
// Video tag body (E.4.3.1 VIDEODATA, AVCVIDEOPACKET)

const (
	CodecAVC  = 7
	CodecHEVC = 12 // extension (same packet layout as AVC)
)

// Video is a video tag body split into its fields.
type Video struct {
	FrameType  uint8  // UB4
	Codec      uint8  // UB4
	PacketType uint8  // AVCPacketType, AVC/HEVC only
	CTS        uint32 // the 24 composition-time bits as an unsigned number (SI24 in the specification; sign not interpreted here)
	Payload    []byte
}

func HasPacketHeader(codec uint8) bool { return codec == CodecAVC || codec == CodecHEVC }

// VideoFirstByte packs FrameType(4) CodecID(4).
func VideoFirstByte(frameType, codec uint8) byte { return byte(frameType%16*16 + codec%16) }

// VideoBody writes the tag body for v (CTS: low 24 bits, big-endian).
func VideoBody(v Video) []byte {
	out := []byte{VideoFirstByte(v.FrameType, v.Codec)}
	if HasPacketHeader(v.Codec) {
		out = append(out, v.PacketType, byte(v.CTS/65536%256), byte(v.CTS/256%256), byte(v.CTS%256))
	}
	return append(out, v.Payload...)
}

// ParseVideo splits a tag body.
func ParseVideo(b []byte) (Video, error) {
	var v Video
	if len(b) < 1 {
		return v, fmt.Errorf("empty video body")
	}
	v.FrameType, v.Codec = b[0]/16, b[0]%16
	p := b[1:]
	if HasPacketHeader(v.Codec) {
		if len(p) < 4 {
			return v, fmt.Errorf("AVC packet header cut short")
		}
		v.PacketType = p[0]
		v.CTS = uint32(p[1])*65536 + uint32(p[2])*256 + uint32(p[3])
		p = p[4:]
	}
	v.Payload = p
	return v, nil
}
