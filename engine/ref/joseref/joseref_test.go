package joseref

import (
	"bytes"
	"encoding/hex"
	"math/big"
	"testing"
)

func seq(n int) []byte {
	b := make([]byte, n)
	for i := range b {
		b[i] = byte(i)
	}
	return b
}

func unhex(s string) []byte {
	b, err := hex.DecodeString(s)
	if err != nil {
		panic(err)
	}
	return b
}

// RFC 7518 appendix B.1 - B.3.
func TestCBCHMACVectors(t *testing.T) {
	p := []byte("A cipher system must not be required to be secret, and it must be able to fall into the hands of the enemy without inconvenience")
	iv := unhex("1af38c2dc2b96ffdd86694092341bc04")
	a := []byte("The second principle of Auguste Kerckhoffs")
	for _, v := range []struct {
		klen      int
		e0, e1, t string
	}{
		{32, "c80edfa32ddf39d5ef00c0b468834279", "4b8851ffb598f7f80074b9473c82e2db", "652c3fa36b0a7c5b3219fab3a30bc1c4"},
		{48, "ea65da6b59e61edb419be62d19712ae5", "", "8490ac0e58949bfe51875d733f93ac2075168039ccc733d7"},
		{64, "4affaaadb78c31c5da4b1b590d10ffbd", "", "4dd3b4c088a7f45c216839645b2012bf2e6269a8c56a816dbc1b267761955bc5"},
	} {
		e, tag, err := CBCHMACEncrypt(seq(v.klen), iv, p, a)
		if err != nil {
			t.Fatal(err)
		}
		if !bytes.HasPrefix(e, unhex(v.e0)) || !bytes.HasSuffix(e, unhex(v.e1)) || len(e) != 144 {
			t.Errorf("klen %d: E = %x", v.klen, e)
		}
		if !bytes.Equal(tag, unhex(v.t)) {
			t.Errorf("klen %d: T = %x want %s", v.klen, tag, v.t)
		}
		back, err := CBCHMACDecrypt(seq(v.klen), iv, e, a, tag)
		if err != nil || !bytes.Equal(back, p) {
			t.Errorf("klen %d: decrypt %v", v.klen, err)
		}
	}
}

// RFC 3394 section 4.1 and 4.6.
func TestKeyWrapVectors(t *testing.T) {
	for _, v := range []struct{ kek, p, c string }{
		{"000102030405060708090A0B0C0D0E0F", "00112233445566778899AABBCCDDEEFF", "1FA68B0A8112B447AEF34BD8FB5A7B829D3E862371D2CFE5"},
		{"000102030405060708090A0B0C0D0E0F101112131415161718191A1B1C1D1E1F", "00112233445566778899AABBCCDDEEFF000102030405060708090A0B0C0D0E0F", "28C9F404C4B810F4CBCCB35CFB87F8263F5786E2D80ED326CBC7F0E71A99F43BFB988B9B7A02DD21"},
	} {
		c, err := KeyWrap(unhex(v.kek), unhex(v.p))
		if err != nil || !bytes.Equal(c, unhex(v.c)) {
			t.Errorf("wrap: %X err %v", c, err)
		}
		p, err := KeyUnwrap(unhex(v.kek), unhex(v.c))
		if err != nil || !bytes.Equal(p, unhex(v.p)) {
			t.Errorf("unwrap: %X err %v", p, err)
		}
		bad := unhex(v.c)
		bad[9] ^= 1
		if _, err := KeyUnwrap(unhex(v.kek), bad); err == nil {
			t.Errorf("unwrap accepted a modified input")
		}
	}
}

// RFC 7518 appendix C.
func TestConcatKDFVector(t *testing.T) {
	z := []byte{158, 86, 217, 29, 129, 113, 53, 211, 114, 131, 66, 131, 191, 132, 38, 156, 251, 49, 110, 163, 218, 128, 106, 72, 246, 218, 167, 121, 140, 254, 144, 196}
	k := ConcatKDF(z, "A128GCM", []byte("Alice"), []byte("Bob"), 16)
	if B64(k) != "VqqN6vgjbSBcIijNcacQGg" {
		t.Errorf("derived %s", B64(k))
	}
	// and Z itself from the two key pairs of the appendix
	ad, _ := UnB64("0_NxaRPUMQoAJt50Gz8YiTr8gRTwyEaCumd-MToTmIo")
	bx, _ := UnB64("weNJy2HscCSM6AEDTDg04biOvhFhyyWvOHQfeF_PxMQ")
	by, _ := UnB64("e8lnCO-AlStT-NJVX-crhB7QRYhiix03illJOVAOyck")
	zz, _, err := ECDHZ(256, new(big.Int).SetBytes(ad), new(big.Int).SetBytes(bx), new(big.Int).SetBytes(by))
	if err != nil || !bytes.Equal(zz, z) {
		t.Errorf("Z = %v err %v", zz, err)
	}
}

// RFC 7638 section 3.2/3.3: members in lexicographic order, no whitespace.
func TestThumbprintInputs(t *testing.T) {
	if got := ThumbprintInputRSA(big.NewInt(0xC0FFEE), 65537); got != `{"e":"AQAB","kty":"RSA","n":"wP_u"}` {
		t.Errorf("%s", got)
	}
	got, err := ThumbprintInputEC(256, big.NewInt(1), big.NewInt(2))
	if err != nil || got != `{"crv":"P-256","kty":"EC","x":"AAAAAAAAAAAAAAAAAAAAAAAAAAAAAAAAAAAAAAAAAAE","y":"AAAAAAAAAAAAAAAAAAAAAAAAAAAAAAAAAAAAAAAAAAI"}` {
		t.Errorf("%s %v", got, err)
	}
	if got := ThumbprintInputOct([]byte{0xfb, 0xff}); got != `{"k":"-_8","kty":"oct"}` {
		t.Errorf("%s", got)
	}
}

func TestFixedWidth(t *testing.T) {
	b, err := FixedWidth(big.NewInt(0x1234), 4)
	if err != nil || !bytes.Equal(b, []byte{0, 0, 0x12, 0x34}) {
		t.Errorf("%x %v", b, err)
	}
	if _, err := FixedWidth(big.NewInt(0x123456), 2); err == nil {
		t.Errorf("overflow accepted")
	}
	if !bytes.Equal(Minimal(big.NewInt(65537)), []byte{1, 0, 1}) {
		t.Errorf("minimal")
	}
}
