// Package joseref is an independent, deliberately boring implementation of the
// pieces of the JOSE RFCs the C16 check needs as a reference:
//
//   - RFC 7638 JWK thumbprint input (section 3.2/3.3: required members only,
//     lexicographic order, no whitespace) for RSA, EC and oct keys;
//   - RFC 7518 section 6.2.1.2/6.2.1.3 fixed-width EC coordinate octet strings
//     (SEC1 2.3.5) and section 6.3.1.1 minimal big-endian integers;
//   - RFC 7518 section 5.2 AES_CBC_HMAC_SHA2 (key split, PKCS#7 padding,
//     tag = first T_LEN octets of HMAC(A || IV || E || AL));
//   - RFC 3394 section 2.2 AES key wrap / unwrap (RFC 7518 section 4.4);
//   - the Concat KDF of NIST SP 800-56A 5.8.1 as profiled by RFC 7518 4.6.2;
//   - RFC 7515 appendix A.3 style ECDSA signing with a caller-chosen nonce
//     (FIPS 186-4 6.4), so that signatures with a leading-zero r or s can be
//     constructed deterministically.
//
// It uses only Go standard-library primitives (AES block, SHA-2, HMAC,
// math/big, elliptic-curve point multiplication) and shares no code with
// github.com/ossrs/go-oryx-lib/https/jose, which it never imports.
package joseref

import (
	"crypto/aes"
	"crypto/cipher"
	"crypto/elliptic"
	"crypto/hmac"
	"crypto/sha256"
	"crypto/sha512"
	"encoding/base64"
	"errors"
	"fmt"
	"hash"
	"math/big"
)

// B64 is base64url without padding (RFC 7515 section 2).
func B64(b []byte) string { return base64.RawURLEncoding.EncodeToString(b) }

// UnB64 decodes base64url without padding, strictly.
func UnB64(s string) ([]byte, error) { return base64.RawURLEncoding.Strict().DecodeString(s) }

// FixedWidth is the SEC1 field-element-to-octet-string conversion: big-endian,
// left-padded with zero octets to exactly n octets.
func FixedWidth(v *big.Int, n int) ([]byte, error) {
	if v.Sign() < 0 {
		return nil, errors.New("negative")
	}
	out := make([]byte, n)
	t := new(big.Int).Set(v)
	m := big.NewInt(256)
	r := new(big.Int)
	for i := n - 1; i >= 0; i-- {
		t.DivMod(t, m, r)
		out[i] = byte(r.Int64())
	}
	if t.Sign() != 0 {
		return nil, errors.New("value does not fit")
	}
	return out, nil
}

// Minimal is the big-endian representation with no leading zero octets
// (Base64urlUInt, RFC 7518 section 2); zero is one zero octet.
func Minimal(v *big.Int) []byte {
	if v.Sign() == 0 {
		return []byte{0}
	}
	n := (v.BitLen() + 7) / 8
	b, _ := FixedWidth(v, n)
	return b
}

// CoordBytes is ceil(bits/8) for a curve of the given field size in bits.
func CoordBytes(bits int) int { return (bits + 7) / 8 }

// CurveName maps a field size to the JWK "crv" value.
func CurveName(bits int) string {
	switch bits {
	case 256:
		return "P-256"
	case 384:
		return "P-384"
	case 521:
		return "P-521"
	}
	return ""
}

// ThumbprintInputRSA: {"e":..,"kty":"RSA","n":..}.
func ThumbprintInputRSA(n *big.Int, e int) string {
	return `{"e":"` + B64(Minimal(big.NewInt(int64(e)))) + `","kty":"RSA","n":"` + B64(Minimal(n)) + `"}`
}

// ThumbprintInputEC: {"crv":..,"kty":"EC","x":..,"y":..} with full-width coordinates.
func ThumbprintInputEC(bits int, x, y *big.Int) (string, error) {
	w := CoordBytes(bits)
	xb, err := FixedWidth(x, w)
	if err != nil {
		return "", err
	}
	yb, err := FixedWidth(y, w)
	if err != nil {
		return "", err
	}
	return `{"crv":"` + CurveName(bits) + `","kty":"EC","x":"` + B64(xb) + `","y":"` + B64(yb) + `"}`, nil
}

// ThumbprintInputOct: {"k":..,"kty":"oct"}.
func ThumbprintInputOct(k []byte) string {
	return `{"k":"` + B64(k) + `","kty":"oct"}`
}

func hashByBits(bits int) func() hash.Hash {
	switch bits {
	case 256:
		return sha256.New
	case 384:
		return sha512.New384
	case 512:
		return sha512.New
	}
	return nil
}

// Digest hashes with SHA-<bits>.
func Digest(bits int, data []byte) []byte {
	h := hashByBits(bits)()
	h.Write(data)
	return h.Sum(nil)
}

// HMAC computes HMAC-SHA-<bits>.
func HMAC(bits int, key, data []byte) []byte {
	m := hmac.New(hashByBits(bits), key)
	m.Write(data)
	return m.Sum(nil)
}

// ---------------------------------------------------------------------------
// RFC 7518 section 5.2: AES_CBC_HMAC_SHA2.

// cbcParams returns MAC_KEY_LEN = ENC_KEY_LEN = T_LEN and the SHA-2 size for a
// composite key K of the given length (5.2.3 - 5.2.5).
func cbcParams(klen int) (half int, shaBits int, err error) {
	switch klen {
	case 32:
		return 16, 256, nil
	case 48:
		return 24, 384, nil
	case 64:
		return 32, 512, nil
	}
	return 0, 0, fmt.Errorf("AES_CBC_HMAC_SHA2: bad key length %d", klen)
}

// CBCHMACTag is T = first T_LEN octets of HMAC(MAC_KEY, A || IV || E || AL),
// AL = 64-bit big-endian number of BITS in A.
func CBCHMACTag(k, a, iv, e []byte) ([]byte, error) {
	half, bits, err := cbcParams(len(k))
	if err != nil {
		return nil, err
	}
	var in []byte
	in = append(in, a...)
	in = append(in, iv...)
	in = append(in, e...)
	al := uint64(len(a)) * 8
	for s := 56; s >= 0; s -= 8 {
		in = append(in, byte(al>>uint(s)))
	}
	return HMAC(bits, k[:half], in)[:half], nil
}

// CBCHMACEncrypt returns E and T for plaintext p.
func CBCHMACEncrypt(k, iv, p, a []byte) (e, t []byte, err error) {
	half, _, err := cbcParams(len(k))
	if err != nil {
		return nil, nil, err
	}
	if len(iv) != 16 {
		return nil, nil, errors.New("IV must be 128 bits")
	}
	blk, err := aes.NewCipher(k[half:])
	if err != nil {
		return nil, nil, err
	}
	pad := 16 - len(p)%16
	buf := append([]byte{}, p...)
	for i := 0; i < pad; i++ {
		buf = append(buf, byte(pad))
	}
	prev := append([]byte{}, iv...)
	e = make([]byte, len(buf))
	for off := 0; off < len(buf); off += 16 {
		var x [16]byte
		for i := 0; i < 16; i++ {
			x[i] = buf[off+i] ^ prev[i]
		}
		blk.Encrypt(e[off:off+16], x[:])
		prev = e[off : off+16]
	}
	t, err = CBCHMACTag(k, a, iv, e)
	return e, t, err
}

// CBCHMACDecrypt checks T and returns the plaintext.
func CBCHMACDecrypt(k, iv, e, a, t []byte) ([]byte, error) {
	half, _, err := cbcParams(len(k))
	if err != nil {
		return nil, err
	}
	want, err := CBCHMACTag(k, a, iv, e)
	if err != nil {
		return nil, err
	}
	if !hmac.Equal(want, t) {
		return nil, errors.New("AES_CBC_HMAC_SHA2: tag mismatch")
	}
	if len(iv) != 16 || len(e) == 0 || len(e)%16 != 0 {
		return nil, errors.New("AES_CBC_HMAC_SHA2: bad IV or ciphertext length")
	}
	blk, err := aes.NewCipher(k[half:])
	if err != nil {
		return nil, err
	}
	out := make([]byte, len(e))
	prev := iv
	for off := 0; off < len(e); off += 16 {
		var x [16]byte
		blk.Decrypt(x[:], e[off:off+16])
		for i := 0; i < 16; i++ {
			out[off+i] = x[i] ^ prev[i]
		}
		prev = e[off : off+16]
	}
	pad := int(out[len(out)-1])
	if pad < 1 || pad > 16 {
		return nil, errors.New("AES_CBC_HMAC_SHA2: bad padding")
	}
	for _, b := range out[len(out)-pad:] {
		if int(b) != pad {
			return nil, errors.New("AES_CBC_HMAC_SHA2: bad padding")
		}
	}
	return out[:len(out)-pad], nil
}

// GCMDecrypt is AES-GCM with a 96-bit IV and 128-bit tag (RFC 7518 5.3).
func GCMDecrypt(k, iv, e, a, t []byte) ([]byte, error) {
	blk, err := aes.NewCipher(k)
	if err != nil {
		return nil, err
	}
	g, err := cipher.NewGCM(blk)
	if err != nil {
		return nil, err
	}
	if len(iv) != 12 || len(t) != 16 {
		return nil, errors.New("AES-GCM: bad IV or tag length")
	}
	p, err := g.Open(nil, iv, append(append([]byte{}, e...), t...), a)
	if err != nil {
		return nil, err
	}
	if p == nil {
		p = []byte{}
	}
	return p, nil
}

// GCMEncrypt returns ciphertext and tag.
func GCMEncrypt(k, iv, p, a []byte) (e, t []byte, err error) {
	blk, err := aes.NewCipher(k)
	if err != nil {
		return nil, nil, err
	}
	g, err := cipher.NewGCM(blk)
	if err != nil {
		return nil, nil, err
	}
	if len(iv) != 12 {
		return nil, nil, errors.New("AES-GCM: bad IV length")
	}
	out := g.Seal(nil, iv, p, a)
	return out[:len(out)-16], out[len(out)-16:], nil
}

// ContentDecrypt dispatches on the "enc" value.
func ContentDecrypt(enc string, cek, iv, e, a, t []byte) ([]byte, error) {
	switch enc {
	case "A128CBC-HS256", "A192CBC-HS384", "A256CBC-HS512":
		want := map[string]int{"A128CBC-HS256": 32, "A192CBC-HS384": 48, "A256CBC-HS512": 64}[enc]
		if len(cek) != want {
			return nil, fmt.Errorf("%s: CEK is %d octets, want %d", enc, len(cek), want)
		}
		return CBCHMACDecrypt(cek, iv, e, a, t)
	case "A128GCM", "A192GCM", "A256GCM":
		want := map[string]int{"A128GCM": 16, "A192GCM": 24, "A256GCM": 32}[enc]
		if len(cek) != want {
			return nil, fmt.Errorf("%s: CEK is %d octets, want %d", enc, len(cek), want)
		}
		return GCMDecrypt(cek, iv, e, a, t)
	}
	return nil, fmt.Errorf("unknown enc %q", enc)
}

// ContentEncrypt dispatches on the "enc" value.
func ContentEncrypt(enc string, cek, iv, p, a []byte) (e, t []byte, err error) {
	switch enc {
	case "A128CBC-HS256", "A192CBC-HS384", "A256CBC-HS512":
		return CBCHMACEncrypt(cek, iv, p, a)
	case "A128GCM", "A192GCM", "A256GCM":
		return GCMEncrypt(cek, iv, p, a)
	}
	return nil, nil, fmt.Errorf("unknown enc %q", enc)
}

// CEKLen is the content-encryption key length in octets; IVLen the IV length.
func CEKLen(enc string) int {
	return map[string]int{"A128CBC-HS256": 32, "A192CBC-HS384": 48, "A256CBC-HS512": 64, "A128GCM": 16, "A192GCM": 24, "A256GCM": 32}[enc]
}

// TagLen is T_LEN (RFC 7518 5.2.3 - 5.2.5; 128 bits for GCM, 5.3).
func TagLen(enc string) int {
	return map[string]int{"A128CBC-HS256": 16, "A192CBC-HS384": 24, "A256CBC-HS512": 32, "A128GCM": 16, "A192GCM": 16, "A256GCM": 16}[enc]
}

func IVLen(enc string) int {
	if len(enc) > 4 && enc[4:7] == "GCM" {
		return 12
	}
	return 16
}

// ---------------------------------------------------------------------------
// RFC 3394 section 2.2.

// KeyWrap wraps plaintext key data p (n 64-bit blocks, n >= 2) under kek.
func KeyWrap(kek, p []byte) ([]byte, error) {
	if len(p)%8 != 0 || len(p) < 16 {
		return nil, errors.New("key wrap: input must be at least two 64-bit blocks")
	}
	blk, err := aes.NewCipher(kek)
	if err != nil {
		return nil, err
	}
	n := len(p) / 8
	a := []byte{0xA6, 0xA6, 0xA6, 0xA6, 0xA6, 0xA6, 0xA6, 0xA6}
	r := make([][]byte, n+1)
	for i := 1; i <= n; i++ {
		r[i] = append([]byte{}, p[(i-1)*8:i*8]...)
	}
	var b [16]byte
	for j := 0; j <= 5; j++ {
		for i := 1; i <= n; i++ {
			copy(b[:8], a)
			copy(b[8:], r[i])
			blk.Encrypt(b[:], b[:])
			t := uint64(n*j + i)
			a = append([]byte{}, b[:8]...)
			for s := 0; s < 8; s++ {
				a[7-s] ^= byte(t >> uint(8*s))
			}
			r[i] = append([]byte{}, b[8:]...)
		}
	}
	out := append([]byte{}, a...)
	for i := 1; i <= n; i++ {
		out = append(out, r[i]...)
	}
	return out, nil
}

// KeyUnwrap is the inverse; it fails when the integrity check value is wrong.
func KeyUnwrap(kek, c []byte) ([]byte, error) {
	if len(c)%8 != 0 || len(c) < 24 {
		return nil, errors.New("key unwrap: input must be at least three 64-bit blocks")
	}
	blk, err := aes.NewCipher(kek)
	if err != nil {
		return nil, err
	}
	n := len(c)/8 - 1
	a := append([]byte{}, c[:8]...)
	r := make([][]byte, n+1)
	for i := 1; i <= n; i++ {
		r[i] = append([]byte{}, c[i*8:(i+1)*8]...)
	}
	var b [16]byte
	for j := 5; j >= 0; j-- {
		for i := n; i >= 1; i-- {
			t := uint64(n*j + i)
			copy(b[:8], a)
			for s := 0; s < 8; s++ {
				b[7-s] ^= byte(t >> uint(8*s))
			}
			copy(b[8:], r[i])
			blk.Decrypt(b[:], b[:])
			a = append([]byte{}, b[:8]...)
			r[i] = append([]byte{}, b[8:]...)
		}
	}
	for _, x := range a {
		if x != 0xA6 {
			return nil, errors.New("key unwrap: integrity check failed")
		}
	}
	var out []byte
	for i := 1; i <= n; i++ {
		out = append(out, r[i]...)
	}
	return out, nil
}

// ---------------------------------------------------------------------------
// RFC 7518 section 4.6.2 (Concat KDF with SHA-256).

func be32(v int) []byte { return []byte{byte(v >> 24), byte(v >> 16), byte(v >> 8), byte(v)} }

// ConcatKDF derives keyLen octets from the shared secret z (already a
// fixed-width octet string). algID is the "enc" value for direct agreement or
// the "alg" value for key agreement with key wrapping.
func ConcatKDF(z []byte, algID string, apu, apv []byte, keyLen int) []byte {
	var other []byte
	other = append(other, be32(len(algID))...)
	other = append(other, algID...)
	other = append(other, be32(len(apu))...)
	other = append(other, apu...)
	other = append(other, be32(len(apv))...)
	other = append(other, apv...)
	other = append(other, be32(keyLen*8)...)
	var out []byte
	for ctr := 1; len(out) < keyLen; ctr++ {
		h := sha256.New()
		h.Write(be32(ctr))
		h.Write(z)
		h.Write(other)
		out = h.Sum(out)
	}
	return out[:keyLen]
}

func curveByBits(bits int) elliptic.Curve {
	switch bits {
	case 256:
		return elliptic.P256()
	case 384:
		return elliptic.P384()
	case 521:
		return elliptic.P521()
	}
	return nil
}

// ECDHZ is the x coordinate of d*(x,y) as a fixed-width octet string
// (RFC 7518 4.6 / SEC1 3.3.1 + 2.3.5), and whether its first octet is zero.
func ECDHZ(bits int, d, x, y *big.Int) (z []byte, leadingZero bool, err error) {
	c := curveByBits(bits)
	if c == nil || !c.IsOnCurve(x, y) {
		return nil, false, errors.New("ECDH: point not on curve")
	}
	zx, _ := c.ScalarMult(x, y, d.Bytes())
	z, err = FixedWidth(zx, CoordBytes(bits))
	if err != nil {
		return nil, false, err
	}
	return z, z[0] == 0, nil
}

// ---------------------------------------------------------------------------
// ECDSA with a chosen nonce (FIPS 186-4 section 6.4), for constructing
// signatures deterministically.

// ECDSASignK returns (r, s) for digest e under private scalar d with nonce k.
func ECDSASignK(bits int, d, k *big.Int, digest []byte) (r, s *big.Int, err error) {
	c := curveByBits(bits)
	n := c.Params().N
	x, _ := c.ScalarBaseMult(k.Bytes())
	r = new(big.Int).Mod(x, n)
	if r.Sign() == 0 {
		return nil, nil, errors.New("r = 0")
	}
	// leftmost min(N.BitLen, hashlen) bits of the digest
	e := new(big.Int).SetBytes(digest)
	if ex := len(digest)*8 - n.BitLen(); ex > 0 {
		e.Rsh(e, uint(ex))
	}
	kinv := new(big.Int).ModInverse(k, n)
	if kinv == nil {
		return nil, nil, errors.New("k not invertible")
	}
	s = new(big.Int).Mul(r, d)
	s.Add(s, e)
	s.Mul(s, kinv)
	s.Mod(s, n)
	if s.Sign() == 0 {
		return nil, nil, errors.New("s = 0")
	}
	return r, s, nil
}

// BasePoint returns d*G.
func BasePoint(bits int, d *big.Int) (x, y *big.Int) {
	return curveByBits(bits).ScalarBaseMult(d.Bytes())
}
