package avcref

import (
	"bytes"
	"encoding/hex"
	"testing"
)

// A record as written by x264/FFmpeg (High@3.1, 4-byte lengths, one SPS, one PPS).
func TestRecordVector(t *testing.T) {
	want, _ := hex.DecodeString("0164001fffe100046764001f01000368ebe3")
	r := Record{Version: 1, Profile: 100, Compat: 0, Level: 31, LengthSizeMinusOne: 3,
		SPS: [][]byte{{0x67, 0x64, 0x00, 0x1f}}, PPS: [][]byte{{0x68, 0xeb, 0xe3}}}
	if got := WriteRecord(r); !bytes.Equal(got, want) {
		t.Fatalf("WriteRecord = %x, want %x", got, want)
	}
	p, n, err := ParseRecord(append(want, 1, 2, 3))
	if err != nil || n != len(want) || p.Reserved6 != 0x3f || p.Reserved3 != 7 || p.Profile != 100 || p.Level != 31 ||
		p.LengthSizeMinusOne != 3 || len(p.SPS) != 1 || len(p.PPS) != 1 || !bytes.Equal(p.SPS[0], r.SPS[0]) || !bytes.Equal(p.PPS[0], r.PPS[0]) {
		t.Fatalf("ParseRecord = %+v %d %v", p, n, err)
	}
	if _, _, err := ParseRecord(want[:len(want)-1]); err == nil {
		t.Fatal("truncated record accepted")
	}
}

func TestSampleAndHeader(t *testing.T) {
	nals := [][]byte{{0x65, 1, 2}, {0x41}}
	for ls, want := range map[int]string{1: "0365010201" + "41", 2: "00036501020001" + "41", 3: "000003650102000001" + "41", 4: "0000000365010200000001" + "41"} {
		w, _ := hex.DecodeString(want)
		if got := WriteSample(ls, nals); !bytes.Equal(got, w) {
			t.Errorf("ls=%d: %x want %x", ls, got, w)
		}
		back, err := ParseSample(ls, w)
		if err != nil || len(back) != 2 || !bytes.Equal(back[0], nals[0]) || !bytes.Equal(back[1], nals[1]) {
			t.Errorf("ls=%d: parse %v %v", ls, back, err)
		}
	}
	for b := 0; b < 256; b++ {
		h := UnpackNALHeader(byte(b))
		if PackNALHeader(h) != byte(b) || h.ForbiddenZero != uint8(b>>7) || h.RefIDC != uint8(b>>5&3) || h.Type != uint8(b&31) {
			t.Errorf("header %#x: %+v", b, h)
		}
	}
	if h := UnpackNALHeader(0x67); h.RefIDC != 3 || h.Type != 7 {
		t.Errorf("0x67 = %+v", h)
	}
}
