// Package avcref is an independent writer/parser for the AVC structures of
// ISO/IEC 14496-15 (AVC file format) and the NAL unit header of ISO/IEC
// 14496-10 section 7.3.1. It shares no code with the library under test.
//
// AVCDecoderConfigurationRecord, ISO/IEC 14496-15 section 5.2.4.1.1:
//
//	unsigned int(8) configurationVersion = 1;
//	unsigned int(8) AVCProfileIndication;
//	unsigned int(8) profile_compatibility;
//	unsigned int(8) AVCLevelIndication;
//	bit(6) reserved = '111111'b;
//	unsigned int(2) lengthSizeMinusOne;
//	bit(3) reserved = '111'b;
//	unsigned int(5) numOfSequenceParameterSets;
//	for (i = 0; i < numOfSequenceParameterSets; i++) {
//	    unsigned int(16) sequenceParameterSetLength;
//	    bit(8*sequenceParameterSetLength) sequenceParameterSetNALUnit;
//	}
//	unsigned int(8) numOfPictureParameterSets;
//	for (i = 0; i < numOfPictureParameterSets; i++) {
//	    unsigned int(16) pictureParameterSetLength;
//	    bit(8*pictureParameterSetLength) pictureParameterSetNALUnit;
//	}
//
// (the trailing chroma/bit-depth/SPS-extension fields of the high profiles
// are not generated and not parsed).
//
// AVC sample, section 5.3.4.2: a sequence of { unsigned int((lengthSizeMinusOne+1)*8)
// NALUnitLength; bit(NALUnitLength*8) NALUnit }.
//
// NAL unit header, ISO/IEC 14496-10 7.3.1: forbidden_zero_bit f(1),
// nal_ref_idc u(2), nal_unit_type u(5).
package avcref

import "fmt"

type bitw struct {
	b []byte
	n uint
}

func (w *bitw) put(v uint64, bits uint) {
	for i := int(bits) - 1; i >= 0; i-- {
		if w.n%8 == 0 {
			w.b = append(w.b, 0)
		}
		if (v>>uint(i))&1 == 1 {
			w.b[len(w.b)-1] |= 1 << (7 - w.n%8)
		}
		w.n++
	}
}

func (w *bitw) bytes(p []byte) {
	if w.n%8 != 0 {
		panic("avcref: unaligned byte write")
	}
	w.b = append(w.b, p...)
	w.n += uint(len(p)) * 8
}

type bitr struct {
	b []byte
	n uint
}

func (r *bitr) left() int { return len(r.b)*8 - int(r.n) }

func (r *bitr) get(bits uint) (uint64, error) {
	if r.left() < int(bits) {
		return 0, fmt.Errorf("avcref: need %d bits at bit offset %d, have %d", bits, r.n, r.left())
	}
	var v uint64
	for i := uint(0); i < bits; i++ {
		v <<= 1
		if r.b[r.n/8]&(1<<(7-r.n%8)) != 0 {
			v |= 1
		}
		r.n++
	}
	return v, nil
}

func (r *bitr) take(n int) ([]byte, error) {
	if r.n%8 != 0 {
		panic("avcref: unaligned byte read")
	}
	if n < 0 || r.left() < n*8 {
		return nil, fmt.Errorf("avcref: need %d bytes at offset %d, have %d", n, r.n/8, r.left()/8)
	}
	p := r.b[r.n/8 : int(r.n/8)+n]
	r.n += uint(n) * 8
	return p, nil
}

// NALHeader is the first byte of a NAL unit.
type NALHeader struct {
	ForbiddenZero uint8 // 1 bit, 0 in a conformant stream
	RefIDC        uint8 // 2 bits
	Type          uint8 // 5 bits
}

// PackNALHeader writes the header byte.
func PackNALHeader(h NALHeader) byte {
	w := &bitw{}
	w.put(uint64(h.ForbiddenZero), 1)
	w.put(uint64(h.RefIDC), 2)
	w.put(uint64(h.Type), 5)
	return w.b[0]
}

// UnpackNALHeader reads the header byte.
func UnpackNALHeader(b byte) NALHeader {
	r := &bitr{b: []byte{b}}
	f, _ := r.get(1)
	i, _ := r.get(2)
	t, _ := r.get(5)
	return NALHeader{ForbiddenZero: uint8(f), RefIDC: uint8(i), Type: uint8(t)}
}

// Record is an AVCDecoderConfigurationRecord. SPS and PPS hold whole NAL
// units (header byte included).
type Record struct {
	Version            uint8
	Profile            uint8
	Compat             uint8
	Level              uint8
	Reserved6          uint8 // '111111'b; filled in by ParseRecord, ignored by WriteRecord
	LengthSizeMinusOne uint8 // 0..3
	Reserved3          uint8 // '111'b; filled in by ParseRecord, ignored by WriteRecord
	SPS                [][]byte
	PPS                [][]byte
}

// WriteRecord emits the record exactly as section 5.2.4.1.1 lays it out, with
// the reserved bits set to ones. It panics on values that do not fit their
// fields (the caller enumerates only representable records).
func WriteRecord(r Record) []byte {
	if r.LengthSizeMinusOne > 3 || len(r.SPS) > 31 || len(r.PPS) > 255 {
		panic("avcref: record field out of range")
	}
	w := &bitw{}
	w.put(uint64(r.Version), 8)
	w.put(uint64(r.Profile), 8)
	w.put(uint64(r.Compat), 8)
	w.put(uint64(r.Level), 8)
	w.put(0x3F, 6)
	w.put(uint64(r.LengthSizeMinusOne), 2)
	w.put(0x7, 3)
	w.put(uint64(len(r.SPS)), 5)
	for _, s := range r.SPS {
		if len(s) > 0xFFFF {
			panic("avcref: parameter set longer than 65535 bytes")
		}
		w.put(uint64(len(s)), 16)
		w.bytes(s)
	}
	w.put(uint64(len(r.PPS)), 8)
	for _, s := range r.PPS {
		if len(s) > 0xFFFF {
			panic("avcref: parameter set longer than 65535 bytes")
		}
		w.put(uint64(len(s)), 16)
		w.bytes(s)
	}
	return w.b
}

// ParseRecord reads a record and returns the number of bytes it occupies.
// Reserved bits are reported, not judged.
func ParseRecord(b []byte) (rec Record, consumed int, err error) {
	r := &bitr{b: b}
	get := func(bits uint) uint64 {
		if err != nil {
			return 0
		}
		var v uint64
		v, err = r.get(bits)
		return v
	}
	rec.Version = uint8(get(8))
	rec.Profile = uint8(get(8))
	rec.Compat = uint8(get(8))
	rec.Level = uint8(get(8))
	rec.Reserved6 = uint8(get(6))
	rec.LengthSizeMinusOne = uint8(get(2))
	rec.Reserved3 = uint8(get(3))
	nsps := int(get(5))
	if err != nil {
		return rec, 0, err
	}
	for i := 0; i < nsps; i++ {
		n := int(get(16))
		if err != nil {
			return rec, 0, fmt.Errorf("SPS %d length: %w", i, err)
		}
		p, e := r.take(n)
		if e != nil {
			return rec, 0, fmt.Errorf("SPS %d: %w", i, e)
		}
		rec.SPS = append(rec.SPS, p)
	}
	npps := int(get(8))
	if err != nil {
		return rec, 0, fmt.Errorf("numOfPictureParameterSets: %w", err)
	}
	for i := 0; i < npps; i++ {
		n := int(get(16))
		if err != nil {
			return rec, 0, fmt.Errorf("PPS %d length: %w", i, err)
		}
		p, e := r.take(n)
		if e != nil {
			return rec, 0, fmt.Errorf("PPS %d: %w", i, e)
		}
		rec.PPS = append(rec.PPS, p)
	}
	return rec, int(r.n / 8), nil
}

// WriteSample emits NAL units prefixed by big-endian lengths of lengthSize
// (1..4) bytes. It panics when a NAL unit does not fit the prefix.
func WriteSample(lengthSize int, nals [][]byte) []byte {
	if lengthSize < 1 || lengthSize > 4 {
		panic("avcref: length size out of range")
	}
	w := &bitw{}
	for _, n := range nals {
		if uint64(len(n)) >= 1<<(8*uint(lengthSize)) {
			panic("avcref: NAL unit does not fit the length prefix")
		}
		w.put(uint64(len(n)), 8*uint(lengthSize))
		w.bytes(n)
	}
	return w.b
}

// ParseSample splits a sample into its NAL units.
func ParseSample(lengthSize int, b []byte) ([][]byte, error) {
	if lengthSize < 1 || lengthSize > 4 {
		return nil, fmt.Errorf("avcref: length size %d", lengthSize)
	}
	r := &bitr{b: b}
	var out [][]byte
	for r.left() > 0 {
		n, err := r.get(8 * uint(lengthSize))
		if err != nil {
			return out, err
		}
		p, err := r.take(int(n))
		if err != nil {
			return out, err
		}
		out = append(out, p)
	}
	return out, nil
}
