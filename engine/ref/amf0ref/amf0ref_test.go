package amf0ref

import (
	"bytes"
	"encoding/hex"
	"encoding/json"
	"testing"
)

// Vectors taken from the AMF0 specification text and from FFmpeg's flvenc output.
func TestVectors(t *testing.T) {
	for _, v := range []struct {
		hex  string
		tree *Tree
	}{
		{"003ff0000000000000", Num(1)},
		{"0101", Bool(true)},
		{"02000568656c6c6f", Str("hello")},
		{"030003666f6f0200036261720000 09", Obj(P("foo", Str("bar")))},
		{"05", Nul()},
		{"06", Undef()},
		{"0800000001000161050000 09", Ecma(P("a", Nul()))},
		{"0a00000002003ff00000000000000101", Strict(Num(1), Bool(true))},
	} {
		want, _ := hex.DecodeString(string(bytes.ReplaceAll([]byte(v.hex), []byte(" "), nil)))
		if got := Encode(v.tree); !bytes.Equal(got, want) {
			t.Errorf("Encode(%v) = %x, want %x", v.tree, got, want)
		}
		got, n, err := Decode(append(want, 0xAA))
		if err != nil || n != len(want) || !Equal(got, v.tree) {
			t.Errorf("Decode(%x) = %v, %d, %v", want, got, n, err)
		}
	}
}

func TestRoundTripAllSmallTrees(t *testing.T) {
	n := 0
	g := &Gen{Leaves: DefaultLeaves(), Keys: DefaultKeys(), RepeatKeys: true, CountHints: WireCountHints}
	g.Trees(3, func(tr *Tree) bool {
		n++
		b := Encode(tr)
		got, c, err := Decode(b)
		if err != nil || c != len(b) || !Equal(got, tr) {
			t.Fatalf("round trip of %v failed: %v %d/%d %v", tr, got, c, len(b), err)
		}
		js, _ := json.Marshal(tr)
		var back Tree
		if err := json.Unmarshal(js, &back); err != nil || !Equal(&back, tr) {
			t.Fatalf("JSON round trip of %v failed: %v", tr, err)
		}
		return true
	})
	if n != 24+504+66456 {
		t.Errorf("enumerated %d wire trees", n)
	}
	api := 0
	Trees(3, DefaultLeaves(), DefaultKeys(), func(*Tree) bool { api++; return true })
	if api != 22+198+13882 {
		t.Errorf("enumerated %d API trees", api)
	}
}

func TestEncodings(t *testing.T) {
	n, withNext := 0, 0
	Encodings(2, SmallLeaves(), []string{"a", ""}, nil, []byte{9}, []*Tree{Str("nx")}, func(e *Encoding) bool {
		n++
		got, c, err := Decode(e.Bytes)
		if err != nil || c != e.First || !Equal(got, e.Tree) {
			t.Fatalf("encoding %x: %v %d %v", e.Bytes, got, c, err)
		}
		if e.Suffix == SuffixValue {
			withNext++
			nx, _, err := Decode(e.Bytes[e.First:])
			if err != nil || !Equal(nx, e.Next) {
				t.Fatalf("next value of %x: %v %v", e.Bytes, nx, err)
			}
		}
		return true
	})
	if n != 3*(11+121) || withNext != 11+121 {
		t.Errorf("%d encodings, %d with a next value", n, withNext)
	}
}

func TestMarkers(t *testing.T) {
	for m := 0; m < 256; m++ {
		for _, body := range MarkerBodies(byte(m)) {
			for c := Context(0); c < NContexts; c++ {
				s := Wrap(c, append([]byte{byte(m)}, body...))
				_, _, err := Decode(s)
				if !Supported(byte(m)) && !IsMarkerError(err) {
					t.Errorf("marker %#x body %x in %v: err=%v", m, body, c, err)
				}
			}
		}
		bodies := MarkerBodies(byte(m))
		if Supported(byte(m)) && m != MNull && m != MUndefined {
			if _, n, err := Decode(append([]byte{byte(m)}, bodies[len(bodies)-1]...)); err != nil || n != 1+len(bodies[len(bodies)-1]) {
				t.Errorf("supported marker %#x: plausible body does not decode: %v", m, err)
			}
		}
	}
}
