// Package amf0ref is an independent AMF0 codec written from the Adobe
// "Action Message Format -- AMF 0" specification (amf0_spec_121207), plus
// deterministic bounded-exhaustive generators of value trees, of
// non-canonical-but-decodable encodings and of the markers outside the
// supported subset. It shares no code with the library under test and never
// imports it.
//
// Grammar implemented (spec section in brackets):
//
//	number        0x00 DOUBLE                                   [2.2]
//	boolean       0x01 U8            (0 = false, anything else true)   [2.3]
//	string        0x02 U16 len, len bytes                       [2.4]
//	object        0x03 *(U16 len, key, value) 0x00 0x00 0x09    [2.5]
//	null          0x05                                          [2.7]
//	undefined     0x06                                          [2.8]
//	ecma array    0x08 U32 count *(U16 len, key, value) 0x00 0x00 0x09   [2.10]
//	strict array  0x0A U32 count, count values                  [2.12]
//
// The ECMA count is a hint: the pair list always ends at the object-end
// marker. All other markers (movieclip 0x04, reference 0x07, object-end 0x09
// as a value, date 0x0B, long string 0x0C, unsupported 0x0D, recordset 0x0E,
// XML document 0x0F, typed object 0x10, AVM+ 0x11 and the undefined 0x12..0xFF)
// are outside the supported subset; Decode reports them as *MarkerError.
package amf0ref

import (
	"encoding/binary"
	"errors"
	"fmt"
	"math"
	"strings"
)

// Kind is the type of a value tree node.
type Kind uint8

const (
	Number Kind = iota
	Boolean
	String
	Null
	Undefined
	Object
	EcmaArray
	StrictArray
)

func (k Kind) String() string {
	switch k {
	case Number:
		return "number"
	case Boolean:
		return "boolean"
	case String:
		return "string"
	case Null:
		return "null"
	case Undefined:
		return "undefined"
	case Object:
		return "object"
	case EcmaArray:
		return "ecma-array"
	case StrictArray:
		return "strict-array"
	}
	return fmt.Sprintf("kind-%d", uint8(k))
}

// IsContainer reports whether k has children.
func (k Kind) IsContainer() bool { return k >= Object }

// Pair is one child of a container. For Object and EcmaArray Key is the
// property name; for StrictArray Key is not part of the value (it is ignored
// by Encode and Equal and left empty by Decode and the generators).
type Pair struct {
	Key string `json:"k"`
	Val *Tree  `json:"v"`
}

// Tree is an abstract AMF0 value. Numbers are kept as IEEE-754 bit patterns so
// that NaN payloads, infinities and -0 are compared exactly.
type Tree struct {
	Kind  Kind   `json:"kind"`
	Bits  uint64 `json:"bits,omitempty,string"` // Number: IEEE-754 bit pattern (a decimal string in JSON: 64-bit integers do not survive float64-based JSON tools)
	Bool  bool   `json:"bool,omitempty"`        // Boolean
	Str   string `json:"str,omitempty"`         // String
	Pairs []Pair `json:"pairs,omitempty"`       // Object, EcmaArray (ordered, keys may repeat on the wire), StrictArray (values)
	Count uint32 `json:"count,omitempty"`       // EcmaArray: the count hint as written on the wire
}

// Constructors.
func Num(f float64) *Tree      { return &Tree{Kind: Number, Bits: math.Float64bits(f)} }
func NumBits(b uint64) *Tree   { return &Tree{Kind: Number, Bits: b} }
func Bool(b bool) *Tree        { return &Tree{Kind: Boolean, Bool: b} }
func Str(s string) *Tree       { return &Tree{Kind: String, Str: s} }
func Nul() *Tree               { return &Tree{Kind: Null} }
func Undef() *Tree             { return &Tree{Kind: Undefined} }
func Obj(p ...Pair) *Tree      { return &Tree{Kind: Object, Pairs: p} }
func P(k string, v *Tree) Pair { return Pair{Key: k, Val: v} }

// Ecma builds an ECMA array whose count hint is the number of pairs (what
// FFmpeg and Flash write).
func Ecma(p ...Pair) *Tree { return &Tree{Kind: EcmaArray, Pairs: p, Count: uint32(len(p))} }

// Strict builds a strict array.
func Strict(v ...*Tree) *Tree {
	t := &Tree{Kind: StrictArray}
	for _, x := range v {
		t.Pairs = append(t.Pairs, Pair{Val: x})
	}
	return t
}

// Float returns the number as a float64.
func (t *Tree) Float() float64 { return math.Float64frombits(t.Bits) }

// Nodes is the number of values in the tree (every leaf and container counts 1).
func (t *Tree) Nodes() int {
	n := 1
	for _, p := range t.Pairs {
		n += p.Val.Nodes()
	}
	return n
}

// Clone returns a deep copy (generator callbacks receive scratch trees).
func (t *Tree) Clone() *Tree {
	c := *t
	if t.Pairs != nil {
		c.Pairs = make([]Pair, len(t.Pairs))
		for i, p := range t.Pairs {
			c.Pairs[i] = Pair{Key: p.Key, Val: p.Val.Clone()}
		}
	}
	return &c
}

// Any reports whether pred holds for some node of the tree.
func (t *Tree) Any(pred func(*Tree) bool) bool {
	if pred(t) {
		return true
	}
	for _, p := range t.Pairs {
		if p.Val.Any(pred) {
			return true
		}
	}
	return false
}

// Map returns a copy of the tree with f applied bottom-up to every node copy.
func (t *Tree) Map(f func(*Tree) *Tree) *Tree {
	c := *t
	if t.Pairs != nil {
		c.Pairs = make([]Pair, len(t.Pairs))
		for i, p := range t.Pairs {
			c.Pairs[i] = Pair{Key: p.Key, Val: p.Val.Map(f)}
		}
	}
	return f(&c)
}

// Equal is deep equality: numbers by bit pattern, containers by their ordered
// (key, value) lists (values only for strict arrays), ECMA count hints included.
func Equal(a, b *Tree) bool { return equal(a, b, true) }

// EqualValues is Equal without the ECMA count hints (which are not part of
// the value: an API-built tree has no way to state one).
func EqualValues(a, b *Tree) bool { return equal(a, b, false) }

func equal(a, b *Tree, counts bool) bool {
	if a == nil || b == nil {
		return a == b
	}
	if a.Kind != b.Kind {
		return false
	}
	switch a.Kind {
	case Number:
		return a.Bits == b.Bits
	case Boolean:
		return a.Bool == b.Bool
	case String:
		return a.Str == b.Str
	case Null, Undefined:
		return true
	}
	if counts && a.Kind == EcmaArray && a.Count != b.Count {
		return false
	}
	if len(a.Pairs) != len(b.Pairs) {
		return false
	}
	for i := range a.Pairs {
		if a.Kind != StrictArray && a.Pairs[i].Key != b.Pairs[i].Key {
			return false
		}
		if !equal(a.Pairs[i].Val, b.Pairs[i].Val, counts) {
			return false
		}
	}
	return true
}

// String renders a tree compactly (long strings abbreviated) for messages.
func (t *Tree) String() string {
	var sb strings.Builder
	t.write(&sb)
	return sb.String()
}

func short(s string) string {
	if len(s) > 12 {
		return fmt.Sprintf("%q..(%d bytes)", s[:4], len(s))
	}
	return fmt.Sprintf("%q", s)
}

func (t *Tree) write(sb *strings.Builder) {
	switch t.Kind {
	case Number:
		fmt.Fprintf(sb, "num(%#016x=%v)", t.Bits, t.Float())
	case Boolean:
		fmt.Fprintf(sb, "%v", t.Bool)
	case String:
		sb.WriteString("str(" + short(t.Str) + ")")
	case Null:
		sb.WriteString("null")
	case Undefined:
		sb.WriteString("undefined")
	default:
		switch t.Kind {
		case Object:
			sb.WriteString("obj{")
		case EcmaArray:
			fmt.Fprintf(sb, "ecma#%d{", t.Count)
		case StrictArray:
			sb.WriteString("strict[")
		}
		for i, p := range t.Pairs {
			if i > 0 {
				sb.WriteString(", ")
			}
			if t.Kind != StrictArray {
				sb.WriteString(short(p.Key) + ":")
			}
			p.Val.write(sb)
		}
		if t.Kind == StrictArray {
			sb.WriteString("]")
		} else {
			sb.WriteString("}")
		}
	}
}

// ---------------------------------------------------------------------------
// Encoder

// Marker bytes of the AMF0 specification, section 2.1.
const (
	MNumber      = 0x00
	MBoolean     = 0x01
	MString      = 0x02
	MObject      = 0x03
	MMovieClip   = 0x04
	MNull        = 0x05
	MUndefined   = 0x06
	MReference   = 0x07
	MEcmaArray   = 0x08
	MObjectEnd   = 0x09
	MStrictArray = 0x0A
	MDate        = 0x0B
	MLongString  = 0x0C
	MUnsupported = 0x0D
	MRecordSet   = 0x0E
	MXMLDocument = 0x0F
	MTypedObject = 0x10
	MAVMPlus     = 0x11
)

// Encode returns the specification encoding of t. Strings and keys longer than
// 65535 bytes cannot be expressed with the short string type and panic.
func Encode(t *Tree) []byte { return AppendEncode(nil, t) }

// AppendEncode appends the encoding of t to dst.
func AppendEncode(dst []byte, t *Tree) []byte {
	switch t.Kind {
	case Number:
		dst = append(dst, MNumber)
		return binary.BigEndian.AppendUint64(dst, t.Bits)
	case Boolean:
		if t.Bool {
			return append(dst, MBoolean, 1)
		}
		return append(dst, MBoolean, 0)
	case String:
		dst = append(dst, MString)
		return appendUTF8(dst, t.Str)
	case Null:
		return append(dst, MNull)
	case Undefined:
		return append(dst, MUndefined)
	case Object:
		dst = append(dst, MObject)
		return appendPairs(dst, t.Pairs)
	case EcmaArray:
		dst = append(dst, MEcmaArray)
		dst = binary.BigEndian.AppendUint32(dst, t.Count)
		return appendPairs(dst, t.Pairs)
	case StrictArray:
		dst = append(dst, MStrictArray)
		dst = binary.BigEndian.AppendUint32(dst, uint32(len(t.Pairs)))
		for _, p := range t.Pairs {
			dst = AppendEncode(dst, p.Val)
		}
		return dst
	}
	panic(fmt.Sprintf("amf0ref: cannot encode kind %d", t.Kind))
}

func appendUTF8(dst []byte, s string) []byte {
	if len(s) > 0xFFFF {
		panic("amf0ref: string longer than 65535 bytes")
	}
	dst = append(dst, byte(len(s)>>8), byte(len(s)))
	return append(dst, s...)
}

func appendPairs(dst []byte, ps []Pair) []byte {
	for _, p := range ps {
		dst = appendUTF8(dst, p.Key)
		dst = AppendEncode(dst, p.Val)
	}
	return append(dst, 0, 0, MObjectEnd)
}

// EncodeAll concatenates the encodings of several values (an RTMP command
// body, an FLV script tag).
func EncodeAll(ts ...*Tree) []byte {
	var b []byte
	for _, t := range ts {
		b = AppendEncode(b, t)
	}
	return b
}

// ---------------------------------------------------------------------------
// Decoder

// MarkerError is returned by Decode for a marker outside the supported subset.
type MarkerError struct {
	Marker byte
	Offset int
}

func (e *MarkerError) Error() string {
	return fmt.Sprintf("amf0ref: marker %#02x (%s) at offset %d is outside the supported subset", e.Marker, MarkerName(e.Marker), e.Offset)
}

// ErrTruncated is returned (wrapped) when the input ends inside a value.
var ErrTruncated = errors.New("amf0ref: truncated")

// IsMarkerError reports whether err is a *MarkerError.
func IsMarkerError(err error) bool {
	var me *MarkerError
	return errors.As(err, &me)
}

// Decode reads the first value of b and returns it with the number of bytes
// it occupies by the grammar above. Bytes after the value are not looked at.
func Decode(b []byte) (t *Tree, consumed int, err error) {
	return decode(b, 0)
}

// DecodeAll decodes a concatenation of values until the input is exhausted.
func DecodeAll(b []byte) ([]*Tree, error) {
	var out []*Tree
	off := 0
	for off < len(b) {
		t, n, err := decode(b, off)
		if err != nil {
			return out, err
		}
		out = append(out, t)
		off += n
	}
	return out, nil
}

func trunc(what string, off int) error {
	return fmt.Errorf("%w: %s at offset %d", ErrTruncated, what, off)
}

// decode reads the value starting at b[off]; consumed is relative to off.
func decode(b []byte, off int) (*Tree, int, error) {
	if off >= len(b) {
		return nil, 0, trunc("marker", off)
	}
	p := b[off:]
	switch p[0] {
	case MNumber:
		if len(p) < 9 {
			return nil, 0, trunc("number body", off)
		}
		return &Tree{Kind: Number, Bits: binary.BigEndian.Uint64(p[1:9])}, 9, nil
	case MBoolean:
		if len(p) < 2 {
			return nil, 0, trunc("boolean body", off)
		}
		return &Tree{Kind: Boolean, Bool: p[1] != 0}, 2, nil
	case MString:
		s, n, err := readUTF8(b, off+1)
		if err != nil {
			return nil, 0, err
		}
		return &Tree{Kind: String, Str: s}, 1 + n, nil
	case MNull:
		return &Tree{Kind: Null}, 1, nil
	case MUndefined:
		return &Tree{Kind: Undefined}, 1, nil
	case MObject:
		ps, n, err := readPairs(b, off+1)
		if err != nil {
			return nil, 0, err
		}
		return &Tree{Kind: Object, Pairs: ps}, 1 + n, nil
	case MEcmaArray:
		if len(p) < 5 {
			return nil, 0, trunc("ecma array count", off)
		}
		ps, n, err := readPairs(b, off+5)
		if err != nil {
			return nil, 0, err
		}
		return &Tree{Kind: EcmaArray, Count: binary.BigEndian.Uint32(p[1:5]), Pairs: ps}, 5 + n, nil
	case MStrictArray:
		if len(p) < 5 {
			return nil, 0, trunc("strict array count", off)
		}
		count := binary.BigEndian.Uint32(p[1:5])
		if uint64(count) > uint64(len(p)-5) { // every value is at least one byte
			return nil, 0, trunc(fmt.Sprintf("strict array of %d values", count), off)
		}
		t := &Tree{Kind: StrictArray}
		n := 5
		for i := uint32(0); i < count; i++ {
			v, vn, err := decode(b, off+n)
			if err != nil {
				return nil, 0, err
			}
			t.Pairs = append(t.Pairs, Pair{Val: v})
			n += vn
		}
		return t, n, nil
	}
	return nil, 0, &MarkerError{Marker: p[0], Offset: off}
}

func readUTF8(b []byte, off int) (string, int, error) {
	if len(b)-off < 2 {
		return "", 0, trunc("string length", off)
	}
	n := int(b[off])<<8 | int(b[off+1])
	if len(b)-off-2 < n {
		return "", 0, trunc(fmt.Sprintf("string of %d bytes", n), off)
	}
	return string(b[off+2 : off+2+n]), 2 + n, nil
}

// readPairs reads *(key value) up to and including the 00 00 09 terminator.
func readPairs(b []byte, off int) ([]Pair, int, error) {
	var ps []Pair
	n := 0
	for {
		k, kn, err := readUTF8(b, off+n)
		if err != nil {
			return nil, 0, err
		}
		n += kn
		if off+n >= len(b) {
			return nil, 0, trunc("property value", off+n)
		}
		if b[off+n] == MObjectEnd {
			if k == "" {
				return ps, n + 1, nil
			}
			// object-end is not a value type
			return nil, 0, &MarkerError{Marker: MObjectEnd, Offset: off + n}
		}
		v, vn, err := decode(b, off+n)
		if err != nil {
			return nil, 0, err
		}
		n += vn
		ps = append(ps, Pair{Key: k, Val: v})
	}
}

// ---------------------------------------------------------------------------
// Markers

// Supported reports whether marker m starts a value of the supported subset.
func Supported(m byte) bool {
	switch m {
	case MNumber, MBoolean, MString, MObject, MNull, MUndefined, MEcmaArray, MStrictArray:
		return true
	}
	return false
}

// MarkerName is the specification's name for m.
func MarkerName(m byte) string {
	names := [...]string{"number", "boolean", "string", "object", "movieclip", "null", "undefined", "reference",
		"ecma-array", "object-end", "strict-array", "date", "long-string", "unsupported", "recordset",
		"xml-document", "typed-object", "avmplus-object"}
	if int(m) < len(names) {
		return names[m]
	}
	return "undefined-marker"
}

// MarkerBodies returns plausible bodies (the bytes after the marker byte) for
// every one of the 256 marker bytes, as the specification lays them out; the
// first entry is always the empty body. For supported markers the non-empty
// bodies are valid; for the others they are what a conformant AMF0 writer
// supporting the full specification would emit.
func MarkerBodies(m byte) [][]byte {
	f64 := func(f float64) []byte { return binary.BigEndian.AppendUint64(nil, math.Float64bits(f)) }
	u32s := func(s string) []byte { return append(binary.BigEndian.AppendUint32(nil, uint32(len(s))), s...) }
	end := []byte{0, 0, MObjectEnd}
	prop := append(appendUTF8(nil, "p"), MNull) // "p": null
	bodies := [][]byte{{}}
	add := func(b ...[]byte) {
		var x []byte
		for _, p := range b {
			x = append(x, p...)
		}
		bodies = append(bodies, x)
	}
	switch m {
	case MNumber:
		add(f64(1.5))
	case MBoolean:
		add([]byte{1})
		add([]byte{0})
	case MString:
		add(appendUTF8(nil, ""))
		add(appendUTF8(nil, "ab"))
	case MObject:
		add(end)
		add(prop, end)
	case MMovieClip, MUnsupported, MRecordSet:
		// reserved / bodiless: also try bytes that happen to follow
		add(f64(0))
	case MNull, MUndefined:
		// bodiless, supported
	case MReference:
		add([]byte{0, 0})
		add([]byte{0, 1})
	case MEcmaArray:
		add([]byte{0, 0, 0, 0}, end)
		add([]byte{0, 0, 0, 1}, prop, end)
	case MObjectEnd:
		add([]byte{0, 0, MObjectEnd})
	case MStrictArray:
		add([]byte{0, 0, 0, 0})
		add([]byte{0, 0, 0, 1, MNull})
	case MDate:
		add(f64(1.5e12), []byte{0, 0})
		add(f64(0), []byte{0xff, 0xc4}) // time zone -60
	case MLongString, MXMLDocument:
		add(u32s(""))
		add(u32s("<a/>"))
	case MTypedObject:
		add(appendUTF8(nil, "C"), end)
		add(appendUTF8(nil, "C"), prop, end)
	case MAVMPlus:
		add([]byte{0x01})       // AMF3 null
		add([]byte{0x04, 0x01}) // AMF3 integer 1
	default:
		add(f64(1.5))
		add([]byte{0, 0, 0, 0})
		add([]byte{0, 0, MObjectEnd})
	}
	return bodies
}

// Context is a position in which a value can occur.
type Context uint8

const (
	TopLevel      Context = iota
	InObject              // value of the only property of an object
	InObjectNext          // value of the second property of an object (after a valid one)
	InEcmaArray           // value of the only entry of an ECMA array
	InStrictArray         // the only element of a strict array
	InStrictNext          // the second element of a strict array (after a valid one)
	NContexts
)

func (c Context) String() string {
	return [...]string{"top-level", "object-property", "object-second-property", "ecma-array-entry", "strict-array-element", "strict-array-second-element", "?"}[c]
}

// InStrict reports whether the context places the value inside a strict array.
func (c Context) InStrict() bool { return c == InStrictArray || c == InStrictNext }

// Wrap places the raw value bytes v (marker + body) into context c using the
// specification layout of the enclosing container.
func Wrap(c Context, v []byte) []byte {
	key := appendUTF8(nil, "k")
	var b []byte
	switch c {
	case TopLevel:
		return append(b, v...)
	case InObject:
		b = append(b, MObject)
		b = append(append(b, key...), v...)
		return append(b, 0, 0, MObjectEnd)
	case InObjectNext:
		b = append(b, MObject)
		b = append(append(b, appendUTF8(nil, "j")...), MBoolean, 1)
		b = append(append(b, key...), v...)
		return append(b, 0, 0, MObjectEnd)
	case InEcmaArray:
		b = append(b, MEcmaArray, 0, 0, 0, 1)
		b = append(append(b, key...), v...)
		return append(b, 0, 0, MObjectEnd)
	case InStrictArray:
		b = append(b, MStrictArray, 0, 0, 0, 1)
		return append(b, v...)
	case InStrictNext:
		b = append(b, MStrictArray, 0, 0, 0, 2, MNull)
		return append(b, v...)
	}
	panic("amf0ref: bad context")
}

// ---------------------------------------------------------------------------
// Generators

// DefaultLeaves is the leaf alphabet of DESIGN.md C05: the numbers whose bit
// patterns break a value-based codec, both booleans, strings at the length
// boundaries of the 16-bit length (valid UTF-8 so that cases survive JSON),
// null and undefined.
func DefaultLeaves() []*Tree {
	long := strings.Repeat("0123456789abcdef", 4096)[:65535]
	return []*Tree{
		Num(0), Nul(), Str("a"), Bool(true), Undef(), Bool(false), Str(""),
		Num(1), NumBits(0x8000000000000000) /* -0 */, Num(-1.5), Str("é") /* 2 bytes */, Num(5e-324), Num(math.MaxFloat64),
		Num(math.Inf(1)), Num(math.Inf(-1)),
		NumBits(0x7FF8000000000001) /* quiet NaN */, NumBits(0x7FF0000000000001) /* signalling NaN */, NumBits(0xFFF8000000000123), /* negative NaN */
		Str(long),
	}
}

// SmallLeaves is a reduced alphabet (one leaf per scalar kind plus the NaN
// and the -0 that a float-valued codec loses) for deeper bounds.
func SmallLeaves() []*Tree {
	return []*Tree{Num(1), Nul(), Str("a"), Bool(true), Undef(), NumBits(0x7FF0000000000001)}
}

// DefaultKeys is the key alphabet of DESIGN.md C05 (includes the empty key and
// a key that is a prefix of another).
func DefaultKeys() []string { return []string{"a", "", "b", "ab"} }

// Gen enumerates value trees deterministically, simplest first.
type Gen struct {
	Leaves []*Tree  // leaf alphabet (scalars); must be non-empty
	Keys   []string // key alphabet for Object and EcmaArray
	// Containers lists the container kinds to build (default: all three).
	Containers []Kind
	// RepeatKeys: keys of one container are drawn with repetition (all
	// len(Keys)^k sequences) instead of the arrangements of distinct keys.
	// Such trees cannot be built through a map-like API but are decodable.
	RepeatKeys bool
	// CountHints returns the ECMA count hints to enumerate for an array of n
	// pairs; nil means the single canonical hint n.
	CountHints func(n int) []uint32
}

// Trees enumerates ALL value trees of at most maxNodes nodes over the given
// alphabets: leaves, empty containers, and Object / EcmaArray / StrictArray
// nodes whose children are again such trees; keys of one object-like container
// are pairwise distinct and occur in every order; the ECMA count hint is the
// number of pairs. Order: by node count, then leaves before containers,
// Object before EcmaArray before StrictArray, fewer children first, then
// lexicographically by child sizes, key sequence and children (each in this
// same order). fn receives a scratch tree that is only valid during the call
// (Clone it to keep it) and returns false to stop; Trees returns false if it
// was stopped.
func Trees(maxNodes int, leaves []*Tree, keys []string, fn func(*Tree) bool) bool {
	g := &Gen{Leaves: leaves, Keys: keys}
	return g.Trees(maxNodes, fn)
}

// Trees runs the enumeration described at the package-level Trees with the
// generator's options.
func (g *Gen) Trees(maxNodes int, fn func(*Tree) bool) bool {
	for n := 1; n <= maxNodes; n++ {
		if !g.Exact(n, fn) {
			return false
		}
	}
	return true
}

func (g *Gen) containers() []Kind {
	if g.Containers != nil {
		return g.Containers
	}
	return []Kind{Object, EcmaArray, StrictArray}
}

// Exact enumerates the trees with exactly n nodes.
func (g *Gen) Exact(n int, fn func(*Tree) bool) bool {
	if n < 1 {
		return true
	}
	if n == 1 {
		for _, l := range g.Leaves {
			if !fn(l) {
				return false
			}
		}
		for _, k := range g.containers() {
			for _, h := range g.hints(k, 0) {
				if !fn(&Tree{Kind: k, Count: h}) {
					return false
				}
			}
		}
		return true
	}
	for _, kind := range g.containers() {
		for k := 1; k <= n-1; k++ {
			if kind != StrictArray && !g.RepeatKeys && k > len(g.Keys) {
				break
			}
			if kind != StrictArray && len(g.Keys) == 0 {
				break
			}
			t := &Tree{Kind: kind, Pairs: make([]Pair, k)}
			sizes := make([]int, k)
			ok := compositions(n-1, sizes, 0, func() bool {
				return g.keySeqs(t, 0, func() bool {
					return g.fill(t, sizes, 0, func() bool {
						for _, h := range g.hints(kind, k) {
							t.Count = h
							if !fn(t) {
								return false
							}
						}
						return true
					})
				})
			})
			if !ok {
				return false
			}
		}
	}
	return true
}

func (g *Gen) hints(kind Kind, n int) []uint32 {
	if kind != EcmaArray {
		return []uint32{0}
	}
	if g.CountHints == nil {
		return []uint32{uint32(n)}
	}
	return g.CountHints(n)
}

// compositions enumerates the ways to write total as an ordered sum of
// len(sizes) positive parts, lexicographically.
func compositions(total int, sizes []int, i int, fn func() bool) bool {
	rest := len(sizes) - i - 1
	if rest == 0 {
		sizes[i] = total
		return fn()
	}
	for s := 1; s <= total-rest; s++ {
		sizes[i] = s
		if !compositions(total-s, sizes, i+1, fn) {
			return false
		}
	}
	return true
}

// keySeqs assigns key sequences to t.Pairs[i:].
func (g *Gen) keySeqs(t *Tree, i int, fn func() bool) bool {
	if t.Kind == StrictArray {
		return fn()
	}
	if i == len(t.Pairs) {
		return fn()
	}
next:
	for _, k := range g.Keys {
		if !g.RepeatKeys {
			for j := 0; j < i; j++ {
				if t.Pairs[j].Key == k {
					continue next
				}
			}
		}
		t.Pairs[i].Key = k
		if !g.keySeqs(t, i+1, fn) {
			return false
		}
	}
	return true
}

// fill enumerates the children of t with the given node counts.
func (g *Gen) fill(t *Tree, sizes []int, i int, fn func() bool) bool {
	if i == len(sizes) {
		return fn()
	}
	return g.Exact(sizes[i], func(c *Tree) bool {
		t.Pairs[i].Val = c
		return g.fill(t, sizes, i+1, fn)
	})
}

// Suffix says what follows the first value of an Encoding.
type Suffix uint8

const (
	SuffixNone  Suffix = iota // nothing
	SuffixByte                // one stray byte
	SuffixValue               // another complete value
)

func (s Suffix) String() string { return [...]string{"none", "byte", "value"}[s] }

// Encoding is one decodable byte string: the specification encoding of Tree
// (whose object-like containers may repeat keys, use the empty key before a
// value, and carry an ECMA count hint that differs from the number of pairs)
// followed by Suffix.
type Encoding struct {
	Tree     *Tree  // the first value (scratch: valid during the callback only)
	First    int    // number of bytes of the first value = what a decoder must consume
	Suffix   Suffix // what follows
	Next     *Tree  // the appended value when Suffix == SuffixValue
	NextByte byte   // the appended byte when Suffix == SuffixByte
	Bytes    []byte // the whole string (scratch)
}

// WireCountHints is the count-hint alphabet of the encodings generator: the
// honest count, zero, one more, one less and the largest value.
func WireCountHints(n int) []uint32 {
	h := []uint32{uint32(n)}
	if n != 0 {
		h = append(h, 0)
	}
	h = append(h, uint32(n+1))
	if n > 1 {
		h = append(h, uint32(n-1))
	}
	return append(h, 0xFFFFFFFF)
}

// Encodings enumerates encodings of all wire-level trees of at most maxNodes
// nodes (keys drawn with repetition, ECMA count hints from hints(n); nil means
// WireCountHints), each followed by nothing, by one stray byte (each of
// strayBytes) and by another value (each of nexts). Order: trees as in Trees,
// then suffixes in the order none, byte, value.
func Encodings(maxNodes int, leaves []*Tree, keys []string, hints func(int) []uint32, strayBytes []byte, nexts []*Tree, fn func(*Encoding) bool) bool {
	if hints == nil {
		hints = WireCountHints
	}
	g := &Gen{Leaves: leaves, Keys: keys, RepeatKeys: true, CountHints: hints}
	return g.Encodings(maxNodes, strayBytes, nexts, fn)
}

// Encodings is Encodings with the generator's own options.
func (g *Gen) Encodings(maxNodes int, strayBytes []byte, nexts []*Tree, fn func(*Encoding) bool) bool {
	nextEnc := make([][]byte, len(nexts))
	for i, n := range nexts {
		nextEnc[i] = Encode(n)
	}
	var buf []byte
	e := &Encoding{}
	return g.Trees(maxNodes, func(t *Tree) bool {
		buf = AppendEncode(buf[:0], t)
		e.Tree, e.First = t, len(buf)
		e.Suffix, e.Next, e.NextByte, e.Bytes = SuffixNone, nil, 0, buf
		if !fn(e) {
			return false
		}
		for _, sb := range strayBytes {
			buf = append(buf[:e.First], sb)
			e.Suffix, e.NextByte, e.Bytes = SuffixByte, sb, buf
			if !fn(e) {
				return false
			}
		}
		e.NextByte = 0
		for i, nx := range nexts {
			buf = append(buf[:e.First], nextEnc[i]...)
			e.Suffix, e.Next, e.Bytes = SuffixValue, nx, buf
			if !fn(e) {
				return false
			}
		}
		return true
	})
}

// HasRepeatedKey reports whether some object-like container of t repeats a key.
func HasRepeatedKey(t *Tree) bool {
	return t.Any(func(n *Tree) bool {
		if n.Kind != Object && n.Kind != EcmaArray {
			return false
		}
		for i := range n.Pairs {
			for j := 0; j < i; j++ {
				if n.Pairs[i].Key == n.Pairs[j].Key {
					return true
				}
			}
		}
		return false
	})
}

// HasNonEmptyStrict reports whether t contains a strict array with elements.
func HasNonEmptyStrict(t *Tree) bool {
	return t.Any(func(n *Tree) bool { return n.Kind == StrictArray && len(n.Pairs) > 0 })
}

// NeutraliseStrict returns a copy of t with every non-empty strict array
// replaced by an object holding the same elements under the keys "0", "1", ...
// (the strict array is removed as a trigger while everything nested inside it
// stays in the case).
func NeutraliseStrict(t *Tree) *Tree {
	return t.Map(func(n *Tree) *Tree {
		if n.Kind == StrictArray && len(n.Pairs) > 0 {
			n.Kind = Object
			for i := range n.Pairs {
				n.Pairs[i].Key = fmt.Sprintf("%d", i)
			}
		}
		return n
	})
}

// DedupKeys returns a copy of t in which the later occurrences of a repeated
// key are renamed (suffix "~i") so that all keys of a container are distinct.
func DedupKeys(t *Tree) *Tree {
	return t.Map(func(n *Tree) *Tree {
		if n.Kind != Object && n.Kind != EcmaArray {
			return n
		}
		seen := map[string]bool{}
		for i := range n.Pairs {
			k := n.Pairs[i].Key
			for seen[k] {
				k = fmt.Sprintf("%s~%d", n.Pairs[i].Key, i)
			}
			seen[k] = true
			n.Pairs[i].Key = k
		}
		return n
	})
}

// OnMetaData returns FFmpeg- and Flash-style script data shapes: each entry is
// a sequence of values as found in an FLV script tag / RTMP data message.
func OnMetaData() [][]*Tree {
	ff := Ecma(
		P("duration", Num(0)), P("width", Num(1280)), P("height", Num(720)), P("videodatarate", Num(2441.40625)),
		P("framerate", Num(29.97002997002997)), P("videocodecid", Num(7)), P("audiodatarate", Num(125)),
		P("audiosamplerate", Num(44100)), P("audiosamplesize", Num(16)), P("stereo", Bool(true)), P("audiocodecid", Num(10)),
		P("major_brand", Str("isom")), P("minor_version", Str("512")), P("compatible_brands", Str("isomiso2avc1mp41")),
		P("encoder", Str("Lavf58.29.100")), P("filesize", Num(0)))
	fmle := Obj(
		P("author", Str("")), P("copyright", Str("")), P("description", Str("")), P("keywords", Str("")), P("rating", Str("")),
		P("title", Str("")), P("presetname", Str("Custom")), P("creationdate", Str("Fri Oct  2 18:00:00 2026\n")),
		P("videodevice", Str("Cam")), P("framerate", Num(25)), P("width", Num(640)), P("height", Num(480)),
		P("videocodecid", Str("avc1")), P("videodatarate", Num(500)), P("avclevel", Num(31)), P("avcprofile", Num(66)),
		P("videokeyframe_frequency", Num(5)), P("audiodevice", Str("Mic")), P("audiosamplerate", Num(22050)),
		P("audiochannels", Num(2)), P("audioinputvolume", Num(75)), P("audiocodecid", Str(".mp3")), P("audiodatarate", Num(48)))
	zeroHint := Ecma(P("duration", Num(12.5)), P("canSeekToEnd", Bool(false)))
	zeroHint.Count = 0
	yamdi := Ecma(
		P("hasKeyframes", Bool(true)), P("duration", Num(60.04)), P("lasttimestamp", Num(60)),
		P("keyframes", Obj(
			P("filepositions", Strict(Num(1024), Num(20480), Num(409600))),
			P("times", Strict(Num(0), Num(2), Num(4))))),
		P("metadatacreator", Str("yamdi")))
	nestedEmpty := Ecma(P("trackinfo", Strict()), P("custom", Obj()), P("tags", Ecma()), P("x", Undef()), P("y", Nul()))
	return [][]*Tree{
		{Str("onMetaData"), ff},
		{Str("@setDataFrame"), Str("onMetaData"), ff},
		{Str("@setDataFrame"), Str("onMetaData"), fmle},
		{Str("onMetaData"), zeroHint},
		{Str("onMetaData"), nestedEmpty},
		{Str("onMetaData"), yamdi},
		{Str("onCuePoint"), Obj(P("name", Str("cue")), P("time", Num(1.5)), P("type", Str("event")), P("parameters", Strict(Str("a"), Obj(P("k", Nul())))))},
	}
}
