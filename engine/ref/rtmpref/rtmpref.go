// Package rtmpref is a reference RTMP chunk-stream codec written from the RTMP
// 1.0 specification, section 5.3 (chunking): a de-chunker (Dechunker), a
// serializer for one chunk with explicit header choices (Chunk.Bytes) and a
// stateful spec chunker (Chunker) that tracks per-chunk-stream header state and
// knows which header types are legal. Semantics pinned in DESIGN.md A.1. It
// shares no code with the library.
package rtmpref

import (
	"encoding/binary"
	"fmt"
	"sort"
)

// Msg is one RTMP message as the specification defines it.
type Msg struct {
	CSID      uint32
	Type      uint8
	StreamID  uint32
	Timestamp uint32 // full 32-bit spec timestamp; compare Timestamp & 0x7fffffff with the library
	Payload   []byte
}

func (m Msg) String() string {
	return fmt.Sprintf("{cs %d type %d sid %d ts %d len %d}", m.CSID, m.Type, m.StreamID, m.Timestamp, len(m.Payload))
}

// ------------------------------------------------------------- serializer

// Chunk is one chunk with every header choice explicit.
type Chunk struct {
	CSID     uint32
	Form     int // basic header bytes: 1, 2 or 3
	Fmt      int // 0..3
	TSField  uint32 // full timestamp (fmt 0) or delta (fmt 1,2); ignored for fmt 3 unless Ext
	Length   uint32 // fmt 0,1
	Type     uint8  // fmt 0,1
	StreamID uint32 // fmt 0
	Ext      bool   // extended timestamp field present (for fmt 3: repeated field)
	ExtValue uint32 // value of the extended field
	Payload  []byte
}

func (c Chunk) Bytes() []byte {
	var b []byte
	f := byte(c.Fmt) << 6
	switch c.Form {
	case 1:
		b = append(b, f|byte(c.CSID&0x3f))
	case 2:
		b = append(b, f|0, byte(c.CSID-64))
	case 3:
		v := c.CSID - 64
		b = append(b, f|1, byte(v&0xff), byte(v>>8))
	}
	put24 := func(v uint32) { b = append(b, byte(v>>16), byte(v>>8), byte(v)) }
	if c.Fmt <= 2 {
		if c.Ext {
			put24(0xffffff)
		} else {
			put24(c.TSField)
		}
	}
	if c.Fmt <= 1 {
		put24(c.Length)
		b = append(b, c.Type)
	}
	if c.Fmt == 0 {
		b = append(b, byte(c.StreamID), byte(c.StreamID>>8), byte(c.StreamID>>16), byte(c.StreamID>>24))
	}
	if c.Ext {
		b = append(b, byte(c.ExtValue>>24), byte(c.ExtValue>>16), byte(c.ExtValue>>8), byte(c.ExtValue))
	}
	return append(b, c.Payload...)
}

// LegalForms returns the basic-header forms that can carry csid.
func LegalForms(csid uint32) []int {
	switch {
	case csid >= 2 && csid <= 63:
		return []int{1}
	case csid >= 64 && csid <= 319:
		return []int{2, 3}
	case csid >= 320 && csid <= 65599:
		return []int{3}
	}
	return nil
}

// ------------------------------------------------------------- de-chunker

type csState struct {
	seen   bool
	ts     uint32
	delta  uint32
	length uint32
	typ    uint8
	sid    uint32
	ext    bool
	inMsg  bool
	have   []byte
}

// Dechunker parses a chunk stream incrementally (Feed may be called with any
// segmentation) and collects completed messages in completion order.
type Dechunker struct {
	ChunkSize uint32
	cs        map[uint32]*csState
	buf       []byte
	Msgs      []Msg
	// EndOffsets[i] is the stream offset just after the last byte of Msgs[i].
	EndOffsets []int
	Consumed   int // bytes of whole chunks consumed so far
	ChunkEnds  []int // stream offset after every whole chunk
	Err        error
	// Strict makes the three violations listed by property C02 errors.
	Strict bool
	// QuirkExtAbsolute reproduces the reading SRS-family servers chose for the extended timestamp
	// field: whenever it is present its value is taken as the message's absolute timestamp (also
	// for type 1/2 headers, where the specification defines it as a delta, and for type 3 chunks).
	// Used only to classify a known deviation, never as the oracle.
	QuirkExtAbsolute bool
}

func NewDechunker() *Dechunker {
	return &Dechunker{ChunkSize: 128, cs: map[uint32]*csState{}, Strict: true}
}

// Pending reports whether some message is partially received or bytes of an
// incomplete chunk are buffered.
func (d *Dechunker) Pending() bool {
	if len(d.buf) > 0 {
		return true
	}
	for _, s := range d.cs {
		if s.inMsg {
			return true
		}
	}
	return false
}

func (d *Dechunker) Feed(b []byte) {
	if d.Err != nil {
		return
	}
	d.buf = append(d.buf, b...)
	for d.Err == nil {
		n := d.one(d.buf)
		if n == 0 {
			return
		}
		d.buf = d.buf[n:]
	}
}

// one parses one whole chunk from p; returns bytes consumed, 0 if incomplete.
func (d *Dechunker) one(p []byte) int {
	if len(p) < 1 {
		return 0
	}
	format := int(p[0] >> 6)
	csid := uint32(p[0] & 0x3f)
	n := 1
	switch csid {
	case 0:
		if len(p) < 2 {
			return 0
		}
		csid = 64 + uint32(p[1])
		n = 2
	case 1:
		if len(p) < 3 {
			return 0
		}
		csid = 64 + uint32(p[1]) + uint32(p[2])*256
		n = 3
	}
	hs := []int{11, 7, 3, 0}[format]
	if len(p) < n+hs {
		return 0
	}
	h := p[n : n+hs]
	n += hs
	s := d.cs[csid]
	if s == nil {
		s = &csState{}
	}
	// work on a copy until the chunk is known to be complete
	ns := *s
	first := !ns.inMsg
	if !ns.seen && format != 0 && d.Strict {
		if !(csid == 2 && format == 1) {
			d.Err = fmt.Errorf("chunk stream %d starts with fmt %d", csid, format)
			return 0
		}
	}
	if ns.inMsg && format == 0 && d.Strict {
		d.Err = fmt.Errorf("fmt 0 inside an unfinished message on chunk stream %d", csid)
		return 0
	}
	var field uint32
	if format <= 2 {
		field = uint32(h[0])<<16 | uint32(h[1])<<8 | uint32(h[2])
		ns.ext = field == 0xffffff
	}
	if format <= 1 {
		l := uint32(h[3])<<16 | uint32(h[4])<<8 | uint32(h[5])
		if !first && l != ns.length && d.Strict {
			d.Err = fmt.Errorf("message length changed mid-message on chunk stream %d: %d != %d", csid, l, ns.length)
			return 0
		}
		ns.length = l
		ns.typ = h[6]
	}
	if format == 0 {
		ns.sid = binary.LittleEndian.Uint32(h[7:11])
	}
	var ev uint32
	if ns.ext {
		if len(p) < n+4 {
			return 0
		}
		ev = binary.BigEndian.Uint32(p[n : n+4])
		n += 4
		if format <= 2 {
			field = ev
		}
	}
	if first && ns.ext && d.QuirkExtAbsolute {
		if format <= 2 {
			ns.delta = 0xffffff
		}
		ns.ts = ev & 0x7fffffff
	} else if first {
		switch format {
		case 0:
			ns.ts, ns.delta = field, field
		case 1, 2:
			ns.delta = field
			ns.ts += field
		case 3:
			ns.ts += ns.delta
		}
	} else if format == 1 || format == 2 {
		// a type-1/2 header inside an unfinished message: not generated, not judged (DESIGN A.1)
		ns.delta = field
	}
	left := int(ns.length) - len(ns.have)
	take := left
	if take > int(d.ChunkSize) {
		take = int(d.ChunkSize)
	}
	if len(p) < n+take {
		return 0
	}
	ns.have = append(append([]byte{}, ns.have...), p[n:n+take]...)
	n += take
	ns.seen = true
	ns.inMsg = true
	d.Consumed += n
	d.ChunkEnds = append(d.ChunkEnds, d.Consumed)
	if len(ns.have) == int(ns.length) {
		m := Msg{CSID: csid, Type: ns.typ, StreamID: ns.sid, Timestamp: ns.ts, Payload: ns.have}
		d.Msgs = append(d.Msgs, m)
		d.EndOffsets = append(d.EndOffsets, d.Consumed)
		ns.have = nil
		ns.inMsg = false
		if m.Type == 1 && len(m.Payload) >= 4 {
			d.ChunkSize = binary.BigEndian.Uint32(m.Payload) & 0x7fffffff
		}
	}
	*s = ns
	d.cs[csid] = s
	return n
}

// ------------------------------------------------------------- spec chunker

// Chunker keeps the sender-side state of RTMP 1.0 section 5.3 and emits chunks
// with the header choices it is told to make (after checking they are legal).
type Chunker struct {
	ChunkSize uint32
	cs        map[uint32]*sendState
}

type sendState struct {
	seen   bool
	ts     uint32
	delta  uint32
	length uint32
	typ    uint8
	sid    uint32
	ext    bool
	extVal uint32
	left   []byte // rest of the message in flight
	inMsg  bool
}

// Clone copies the chunker state (payload slices are shared, they are never modified).
func (c *Chunker) Clone() *Chunker {
	n := &Chunker{ChunkSize: c.ChunkSize, cs: map[uint32]*sendState{}}
	for k, v := range c.cs {
		cp := *v
		n.cs[k] = &cp
	}
	return n
}

// Seen reports whether csid has carried a chunk before.
func (c *Chunker) Seen(csid uint32) bool { return c.st(csid).seen }

// Prev returns the previous header values of csid (timestamp, delta).
func (c *Chunker) Prev(csid uint32) (ts, delta, length uint32, typ uint8, sid uint32) {
	s := c.st(csid)
	return s.ts, s.delta, s.length, s.typ, s.sid
}

func NewChunker() *Chunker { return &Chunker{ChunkSize: 128, cs: map[uint32]*sendState{}} }

func (c *Chunker) st(csid uint32) *sendState {
	s := c.cs[csid]
	if s == nil {
		s = &sendState{}
		c.cs[csid] = s
	}
	return s
}

// InFlight reports whether csid has an unfinished message.
func (c *Chunker) InFlight(csid uint32) bool { return c.st(csid).inMsg }

// AnyInFlight lists chunk streams with an unfinished message.
func (c *Chunker) AnyInFlight() []uint32 {
	var r []uint32
	for id, s := range c.cs {
		if s.inMsg {
			r = append(r, id)
		}
	}
	sort.Slice(r, func(i, j int) bool { return r[i] < r[j] })
	return r
}

// LegalFmts returns the header types a conformant sender may use to start m on
// its chunk stream: 0 always; 1 if the stream id is unchanged; 2 if length and
// type are unchanged too; 3 if additionally the delta repeats. For types 1-3
// the timestamp must not go backwards (type 0 "MUST be used ... whenever the
// stream timestamp goes backward").
func (c *Chunker) LegalFmts(m Msg) []int {
	s := c.st(m.CSID)
	r := []int{0}
	if !s.seen || s.inMsg {
		return r
	}
	if m.StreamID != s.sid || m.Timestamp < s.ts {
		return r
	}
	r = append(r, 1)
	if uint32(len(m.Payload)) != s.length || m.Type != s.typ {
		return r
	}
	r = append(r, 2)
	if m.Timestamp-s.ts == s.delta {
		r = append(r, 3)
	}
	return r
}

// Start emits the first chunk of m with the given header type and basic-header
// form. The caller must have checked LegalFmts.
func (c *Chunker) Start(m Msg, format, form int) Chunk {
	s := c.st(m.CSID)
	ch := Chunk{CSID: m.CSID, Form: form, Fmt: format, Length: uint32(len(m.Payload)), Type: m.Type, StreamID: m.StreamID}
	switch format {
	case 0:
		ch.TSField = m.Timestamp
		s.delta = m.Timestamp
		s.ext = m.Timestamp >= 0xffffff
		s.extVal = m.Timestamp
	case 1, 2:
		d := m.Timestamp - s.ts
		ch.TSField = d
		s.delta = d
		s.ext = d >= 0xffffff
		s.extVal = d
	case 3:
		// header fields inherited; the extended field repeats if the last 0/1/2 header had one
	}
	ch.Ext, ch.ExtValue = s.ext, s.extVal
	s.ts = m.Timestamp
	s.length, s.typ, s.sid = uint32(len(m.Payload)), m.Type, m.StreamID
	s.seen = true
	s.left = m.Payload
	s.inMsg = true
	c.take(s, &ch)
	return ch
}

// Continue emits the next (type 3) chunk of the message in flight on csid.
func (c *Chunker) Continue(csid uint32, form int) Chunk {
	s := c.st(csid)
	ch := Chunk{CSID: csid, Form: form, Fmt: 3, Ext: s.ext, ExtValue: s.extVal}
	c.take(s, &ch)
	return ch
}

func (c *Chunker) take(s *sendState, ch *Chunk) {
	n := len(s.left)
	if n > int(c.ChunkSize) {
		n = int(c.ChunkSize)
	}
	ch.Payload = s.left[:n]
	s.left = s.left[n:]
	if len(s.left) == 0 {
		s.inMsg = false
		if s.typ == 1 && s.length >= 4 {
			// Set Chunk Size takes effect after the complete message; recompute from the whole payload is the caller's job
		}
	}
}

// SetChunkSizeMsg builds the protocol control message announcing n.
func SetChunkSizeMsg(n uint32, ts uint32) Msg {
	p := make([]byte, 4)
	binary.BigEndian.PutUint32(p, n)
	return Msg{CSID: 2, Type: 1, StreamID: 0, Timestamp: ts, Payload: p}
}
