// Package adtsref is an independent ADTS writer/parser written from
// ISO/IEC 13818-7 section 6.2 (adts_fixed_header, adts_variable_header,
// adts_error_check) and the 2-byte AudioSpecificConfig packing of
// ISO/IEC 14496-3 section 1.6.2.1. It shares no code with the library.
package adtsref

import "fmt"

type Header struct {
	ID               uint8 // 1 = MPEG-2, 0 = MPEG-4
	Layer            uint8
	ProtectionAbsent uint8
	Profile          uint8 // 2 bits
	SFI              uint8 // 4 bits
	Private          uint8
	Channels         uint8 // 3 bits
	Original         uint8
	Home             uint8
	CopyID           uint8
	CopyStart        uint8
	FrameLength      uint16 // 13 bits, header + crc + raw
	Fullness         uint16 // 11 bits
	Blocks           uint8  // 2 bits (number_of_raw_data_blocks_in_frame)
	CRC              uint16
}

type bitw struct {
	b []byte
	n uint
}

func (w *bitw) put(v uint32, bits uint) {
	for i := int(bits) - 1; i >= 0; i-- {
		if w.n%8 == 0 {
			w.b = append(w.b, 0)
		}
		if (v>>uint(i))&1 == 1 {
			w.b[len(w.b)-1] |= 1 << (7 - w.n%8)
		}
		w.n++
	}
}

type bitr struct {
	b []byte
	n uint
}

func (r *bitr) get(bits uint) uint32 {
	var v uint32
	for i := uint(0); i < bits; i++ {
		v <<= 1
		if r.b[r.n/8]&(1<<(7-r.n%8)) != 0 {
			v |= 1
		}
		r.n++
	}
	return v
}

// HeaderLen is 7 without CRC and 9 with.
func (h Header) HeaderLen() int {
	if h.ProtectionAbsent == 0 {
		return 9
	}
	return 7
}

// Write emits one ADTS frame; FrameLength is computed.
func Write(h Header, raw []byte) []byte {
	w := &bitw{}
	fl := uint32(h.HeaderLen() + len(raw))
	w.put(0xFFF, 12)
	w.put(uint32(h.ID), 1)
	w.put(uint32(h.Layer), 2)
	w.put(uint32(h.ProtectionAbsent), 1)
	w.put(uint32(h.Profile), 2)
	w.put(uint32(h.SFI), 4)
	w.put(uint32(h.Private), 1)
	w.put(uint32(h.Channels), 3)
	w.put(uint32(h.Original), 1)
	w.put(uint32(h.Home), 1)
	w.put(uint32(h.CopyID), 1)
	w.put(uint32(h.CopyStart), 1)
	w.put(fl, 13)
	w.put(uint32(h.Fullness), 11)
	w.put(uint32(h.Blocks), 2)
	if h.ProtectionAbsent == 0 {
		w.put(uint32(h.CRC), 16)
	}
	return append(w.b, raw...)
}

// Parse reads one frame from b and returns the header, the raw data block and
// the rest of b.
func Parse(b []byte) (h Header, raw, rest []byte, err error) {
	if len(b) < 7 {
		return h, nil, nil, fmt.Errorf("short header: %d", len(b))
	}
	r := &bitr{b: b}
	if r.get(12) != 0xFFF {
		return h, nil, nil, fmt.Errorf("no syncword")
	}
	h.ID = uint8(r.get(1))
	h.Layer = uint8(r.get(2))
	h.ProtectionAbsent = uint8(r.get(1))
	h.Profile = uint8(r.get(2))
	h.SFI = uint8(r.get(4))
	h.Private = uint8(r.get(1))
	h.Channels = uint8(r.get(3))
	h.Original = uint8(r.get(1))
	h.Home = uint8(r.get(1))
	h.CopyID = uint8(r.get(1))
	h.CopyStart = uint8(r.get(1))
	h.FrameLength = uint16(r.get(13))
	h.Fullness = uint16(r.get(11))
	h.Blocks = uint8(r.get(2))
	hl := 7
	if h.ProtectionAbsent == 0 {
		if len(b) < 9 {
			return h, nil, nil, fmt.Errorf("short crc")
		}
		h.CRC = uint16(r.get(16))
		hl = 9
	}
	if int(h.FrameLength) < hl || int(h.FrameLength) > len(b) {
		return h, nil, nil, fmt.Errorf("frame length %d outside [%d,%d]", h.FrameLength, hl, len(b))
	}
	return h, b[hl:h.FrameLength], b[h.FrameLength:], nil
}

// ParseHeader reads only the 7 header bytes (adts_fixed_header + adts_variable_header) of b, whatever
// aac_frame_length says about the bytes that follow: a caller can then judge the advertised length itself.
func ParseHeader(b []byte) (h Header, err error) {
	if len(b) < 7 {
		return h, fmt.Errorf("short header: %d", len(b))
	}
	r := &bitr{b: b[:7]}
	if r.get(12) != 0xFFF {
		return h, fmt.Errorf("no syncword")
	}
	h.ID = uint8(r.get(1))
	h.Layer = uint8(r.get(2))
	h.ProtectionAbsent = uint8(r.get(1))
	h.Profile = uint8(r.get(2))
	h.SFI = uint8(r.get(4))
	h.Private = uint8(r.get(1))
	h.Channels = uint8(r.get(3))
	h.Original = uint8(r.get(1))
	h.Home = uint8(r.get(1))
	h.CopyID = uint8(r.get(1))
	h.CopyStart = uint8(r.get(1))
	h.FrameLength = uint16(r.get(13))
	h.Fullness = uint16(r.get(11))
	h.Blocks = uint8(r.get(2))
	return h, nil
}

// ASC packing: audioObjectType(5) samplingFrequencyIndex(4) channelConfiguration(4) + 3 GASpecificConfig bits.
func PackASC(object, sfi, channels, tail uint8) [2]byte {
	w := &bitw{}
	w.put(uint32(object), 5)
	w.put(uint32(sfi), 4)
	w.put(uint32(channels), 4)
	w.put(uint32(tail), 3)
	return [2]byte{w.b[0], w.b[1]}
}

func UnpackASC(b [2]byte) (object, sfi, channels, tail uint8) {
	r := &bitr{b: b[:]}
	object = uint8(r.get(5))
	sfi = uint8(r.get(4))
	channels = uint8(r.get(4))
	tail = uint8(r.get(3))
	return
}

// Accepted is the set of configurations the property says the library accepts.
func Accepted(object, sfi, channels uint8) bool {
	switch object {
	case 1, 2, 3, 5, 29:
	default:
		return false
	}
	return sfi >= 1 && sfi <= 12 && channels >= 1 && channels <= 7
}

// SamplingFrequency is ISO/IEC 13818-7 Table 35.
var SamplingFrequency = [13]int{96000, 88200, 64000, 48000, 44100, 32000, 24000, 22050, 16000, 12000, 11025, 8000, 7350}

// ProfileOf maps an MPEG-4 audio object type to the 2-bit ADTS profile
// (object type - 1; HE and HEv2 are signalled as LC).
func ProfileOf(object uint8) uint8 {
	switch object {
	case 1:
		return 0
	case 2, 5, 29:
		return 1
	case 3:
		return 2
	}
	return 3
}
