// Package dump renders the private state of library objects through
// reflection (read-only; works on unexported fields) into a canonical string:
// maps sorted, pointers followed, functions/channels/readers skipped. It is
// used for E2 state keys and for end-state checks, and does not depend on
// field names, so a refactoring of the library does not break the build.
package dump

import (
	"fmt"
	"reflect"
	"sort"
	"strings"
)

// Options limits what is rendered.
type Options struct {
	SkipTypes  []string // substrings of type names to skip (e.g. "bufio.", "sync.")
	SkipFields []string // field names to skip
	MaxDepth   int
	MaxBytes   int // byte slices longer than this are summarised by length+hash
}

func String(v interface{}, o Options) string {
	var b strings.Builder
	if o.MaxDepth == 0 {
		o.MaxDepth = 12
	}
	if o.MaxBytes == 0 {
		o.MaxBytes = 64
	}
	w(&b, reflect.ValueOf(v), o, 0, map[uintptr]bool{})
	return b.String()
}

func skipType(t reflect.Type, o Options) bool {
	n := t.String()
	for _, s := range o.SkipTypes {
		if strings.Contains(n, s) {
			return true
		}
	}
	return false
}

func w(b *strings.Builder, v reflect.Value, o Options, d int, seen map[uintptr]bool) {
	if !v.IsValid() {
		b.WriteString("nil")
		return
	}
	if d > o.MaxDepth {
		b.WriteString("…")
		return
	}
	if skipType(v.Type(), o) {
		b.WriteString("_")
		return
	}
	switch v.Kind() {
	case reflect.Bool:
		fmt.Fprintf(b, "%v", v.Bool())
	case reflect.Int, reflect.Int8, reflect.Int16, reflect.Int32, reflect.Int64:
		fmt.Fprintf(b, "%d", v.Int())
	case reflect.Uint, reflect.Uint8, reflect.Uint16, reflect.Uint32, reflect.Uint64, reflect.Uintptr:
		fmt.Fprintf(b, "%d", v.Uint())
	case reflect.Float32, reflect.Float64:
		fmt.Fprintf(b, "%v", v.Float())
	case reflect.String:
		s := v.String()
		if len(s) > o.MaxBytes {
			fmt.Fprintf(b, "str[%d:%x]", len(s), hash([]byte(s)))
		} else {
			fmt.Fprintf(b, "%q", s)
		}
	case reflect.Ptr:
		if v.IsNil() {
			b.WriteString("nil")
			return
		}
		p := v.Pointer()
		if seen[p] {
			b.WriteString("<cycle>")
			return
		}
		seen[p] = true
		b.WriteString("&")
		w(b, v.Elem(), o, d+1, seen)
		delete(seen, p)
	case reflect.Interface:
		if v.IsNil() {
			b.WriteString("nil")
			return
		}
		fmt.Fprintf(b, "(%s)", v.Elem().Type())
		w(b, v.Elem(), o, d+1, seen)
	case reflect.Struct:
		b.WriteString("{")
		t := v.Type()
		for i := 0; i < v.NumField(); i++ {
			f := t.Field(i)
			skip := false
			for _, s := range o.SkipFields {
				if s == f.Name {
					skip = true
				}
			}
			if skip {
				continue
			}
			b.WriteString(f.Name)
			b.WriteString(":")
			w(b, v.Field(i), o, d+1, seen)
			b.WriteString(" ")
		}
		b.WriteString("}")
	case reflect.Slice, reflect.Array:
		if v.Kind() == reflect.Slice && v.IsNil() {
			b.WriteString("nil")
			return
		}
		if v.Type().Elem().Kind() == reflect.Uint8 {
			n := v.Len()
			bs := make([]byte, n)
			for i := 0; i < n; i++ {
				bs[i] = byte(v.Index(i).Uint())
			}
			if n > o.MaxBytes {
				fmt.Fprintf(b, "bytes[%d:%x]", n, hash(bs))
			} else {
				fmt.Fprintf(b, "%x", bs)
			}
			return
		}
		b.WriteString("[")
		for i := 0; i < v.Len(); i++ {
			w(b, v.Index(i), o, d+1, seen)
			b.WriteString(" ")
		}
		b.WriteString("]")
	case reflect.Map:
		if v.IsNil() {
			b.WriteString("nil")
			return
		}
		var ents []string
		for _, k := range v.MapKeys() {
			var kb, vb strings.Builder
			w(&kb, k, o, d+1, seen)
			w(&vb, v.MapIndex(k), o, d+1, seen)
			ents = append(ents, kb.String()+"=>"+vb.String())
		}
		sort.Strings(ents)
		b.WriteString("map[" + strings.Join(ents, " ") + "]")
	case reflect.Func, reflect.Chan, reflect.UnsafePointer:
		if v.IsNil() {
			b.WriteString("nil")
		} else {
			b.WriteString("_")
		}
	default:
		b.WriteString("?")
	}
}

func hash(p []byte) uint64 {
	h := uint64(14695981039346656037)
	for _, c := range p {
		h ^= uint64(c)
		h *= 1099511628211
	}
	return h
}

// Field returns the dump of one (possibly nested, dot-separated) field of a
// struct pointer, or "<absent>" when the path does not exist.
func Field(v interface{}, path string, o Options) string {
	rv := reflect.ValueOf(v)
	for rv.Kind() == reflect.Ptr || rv.Kind() == reflect.Interface {
		if rv.IsNil() {
			return "<absent>"
		}
		rv = rv.Elem()
	}
	for _, name := range strings.Split(path, ".") {
		if rv.Kind() != reflect.Struct {
			return "<absent>"
		}
		rv = rv.FieldByName(name)
		if !rv.IsValid() {
			return "<absent>"
		}
		for rv.Kind() == reflect.Ptr || rv.Kind() == reflect.Interface {
			if rv.IsNil() {
				return "nil"
			}
			rv = rv.Elem()
		}
	}
	var b strings.Builder
	if o.MaxDepth == 0 {
		o.MaxDepth = 12
	}
	if o.MaxBytes == 0 {
		o.MaxBytes = 64
	}
	w(&b, rv, o, 0, map[uintptr]bool{})
	return b.String()
}
