package hl

import "testing"

// the compact distinct set must agree with a plain map on every answer, across several spills
func TestDsetAgreesWithMap(t *testing.T) {
	old := dsetSpill
	dsetSpill = 64
	defer func() { dsetSpill = old }()
	d := &dset{recent: map[uint64]struct{}{}}
	ref := map[uint64]bool{}
	x := uint64(1)
	for i := 0; i < 20000; i++ {
		x = x*6364136223846793005 + 1442695040888963407
		k := (x >> 33) % 5000
		want := !ref[k]
		ref[k] = true
		if got := d.add(k); got != want {
			t.Fatalf("step %d key %d: add=%v want %v", i, k, got, want)
		}
		if d.size() != int64(len(ref)) {
			t.Fatalf("step %d: size %d want %d", i, d.size(), len(ref))
		}
	}
}
