// Package hl is the harness library shared by every check: argument parsing,
// sharding, counting, sampling, violation recording and the worker summary the
// driver (cmd/verif) merges into evidence/<id>.json.
package hl

import (
	"encoding/hex"
	"encoding/json"
	"flag"
	"fmt"
	"hash/fnv"
	"os"
	"runtime/debug"
	"sort"
	"strings"
	"sync"
	"sync/atomic"
	"time"
)

// Violation is one failing case, identified by a key computed from the case.
type Violation struct {
	Key    string      `json:"key"`
	What   string      `json:"what"`
	Case   interface{} `json:"case,omitempty"`
	Count  int         `json:"count"`
	Replay string      `json:"replay,omitempty"`
}

// Summary is what a worker writes for the driver.
type Summary struct {
	Property   string                 `json:"property"`
	Tier       string                 `json:"tier"`
	Shard      int                    `json:"shard"`
	NShards    int                    `json:"nshards"`
	Level      string                 `json:"level"`
	Counters   map[string]int64       `json:"counters"`
	Distinct   map[string]int64       `json:"distinct"`
	Info       map[string]interface{} `json:"info"`
	Samples    []interface{}          `json:"samples"`
	Violations []*Violation           `json:"violations"`
	Exhaustive bool                   `json:"exhaustive"`
	Caps       []string               `json:"caps"`
	Rule       string                 `json:"rule"`
	Assume     []string               `json:"assumptions"`
	WallS      float64                `json:"wall_s"`
	EngineErr  string                 `json:"engine_error,omitempty"`
}

type Ctx struct {
	ID      string
	Tier    string
	Shard   int
	NShards int
	Seed    int64
	Replay  string

	mu        sync.Mutex
	counters  map[string]int64
	distinct  map[string]*dset
	info      map[string]interface{}
	samples   []interface{}
	maxSample int
	viol      map[string]*Violation
	caps      map[string]bool
	rule      string
	assume    []string
	deadline  time.Time
	start     time.Time
	level     string
	seq       int64
	mode      string

	finish  func(engineErr string)
	curCase atomic.Value // *caseMark
}

type caseMark struct {
	label string
	data  interface{}
	since time.Time
	n     int64
}

func (c *Ctx) Quick() bool    { return c.Tier != "thorough" }
func (c *Ctx) Thorough() bool { return c.Tier == "thorough" }

// Mine reports whether top-level case index i belongs to this shard.
func (c *Ctx) Mine(i int) bool {
	if c.NShards <= 1 {
		return true
	}
	return (i+int(c.Seed))%c.NShards == c.Shard
}

// Next hands out a running index and reports whether it is this shard's.
func (c *Ctx) Next() bool {
	c.mu.Lock()
	i := c.seq
	c.seq++
	c.mu.Unlock()
	return c.Mine(int(i))
}

func (c *Ctx) Add(name string, n int64) {
	c.mu.Lock()
	c.counters[name] += n
	c.mu.Unlock()
}

func (c *Ctx) Count(name string) int64 {
	c.mu.Lock()
	defer c.mu.Unlock()
	return c.counters[name]
}

// Eval counts one evaluated case.
func (c *Ctx) Eval() { c.Add("evaluations", 1) }

// Distinct records key in the named distinct-set; the set size is reported.
func (c *Ctx) Distinct(set string, key string) bool {
	h := fnv.New64a()
	h.Write([]byte(key))
	return c.DistinctH(set, h.Sum64())
}

func (c *Ctx) DistinctH(set string, k uint64) bool {
	c.mu.Lock()
	defer c.mu.Unlock()
	m := c.distinct[set]
	if m == nil {
		m = &dset{recent: map[uint64]struct{}{}}
		c.distinct[set] = m
	}
	return m.add(k)
}

// dset is an exact set of 64-bit keys that stays compact when it grows to hundreds of millions of entries: recent
// keys live in a map; when the map reaches dsetSpill entries it is merged into a sorted slice (8 bytes per key,
// membership by binary search).
type dset struct {
	base   []uint64
	recent map[uint64]struct{}
}

var dsetSpill = 1 << 21

func (d *dset) size() int64 { return int64(len(d.base) + len(d.recent)) }

func (d *dset) add(k uint64) bool {
	if _, ok := d.recent[k]; ok {
		return false
	}
	if n := len(d.base); n > 0 {
		if i := sort.Search(n, func(i int) bool { return d.base[i] >= k }); i < n && d.base[i] == k {
			return false
		}
	}
	d.recent[k] = struct{}{}
	if len(d.recent) >= dsetSpill {
		add := make([]uint64, 0, len(d.recent))
		for x := range d.recent {
			add = append(add, x)
		}
		sort.Slice(add, func(i, j int) bool { return add[i] < add[j] })
		merged := make([]uint64, 0, len(d.base)+len(add))
		i, j := 0, 0
		for i < len(d.base) && j < len(add) {
			if d.base[i] < add[j] {
				merged = append(merged, d.base[i])
				i++
			} else {
				merged = append(merged, add[j])
				j++
			}
		}
		merged = append(append(merged, d.base[i:]...), add[j:]...)
		d.base, d.recent = merged, map[uint64]struct{}{}
	}
	return true
}

// Nontrivial records a distinct non-trivial case (by the check's rule).
func (c *Ctx) Nontrivial(key string) { c.Distinct("distinct_nontrivial", key) }

func (c *Ctx) Info(k string, v interface{}) {
	c.mu.Lock()
	c.info[k] = v
	c.mu.Unlock()
}

func (c *Ctx) Rule(s string)      { c.rule = s }
func (c *Ctx) Assume(s ...string) { c.assume = append(c.assume, s...) }

// Sample keeps the first few cases verbatim for the evidence file.
func (c *Ctx) Sample(v interface{}) {
	c.mu.Lock()
	if len(c.samples) < c.maxSample {
		c.samples = append(c.samples, v)
	}
	c.mu.Unlock()
}

// SampleEvery keeps a case when the evaluation counter hits a sparse grid, so
// samples are spread over the enumeration and not only its first elements.
func (c *Ctx) SampleSpread(n int64, v func() interface{}) {
	if n == 0 || n == 7 || n == 100 || n == 1000 || n == 10000 || n == 100000 || n == 1000000 {
		c.Sample(v())
	}
}

// Violation records a failing case under key (first case kept, others counted).
func (c *Ctx) Violation(key, what string, cs interface{}) {
	c.mu.Lock()
	defer c.mu.Unlock()
	v := c.viol[key]
	if v == nil {
		c.viol[key] = &Violation{Key: key, What: what, Case: cs, Count: 1}
		return
	}
	v.Count++
}

func (c *Ctx) HasViolation(key string) bool {
	c.mu.Lock()
	defer c.mu.Unlock()
	return c.viol[key] != nil
}

func (c *Ctx) NViolations() int {
	c.mu.Lock()
	defer c.mu.Unlock()
	return len(c.viol)
}

// Cap records that an internal cap (budget, depth, horizon) was hit: the run
// is then reported as not exhaustive, never as a failure.
func (c *Ctx) Cap(what string) {
	c.mu.Lock()
	c.caps[what] = true
	c.mu.Unlock()
}

// Expired reports whether the worker's wall-clock budget has run out; callers
// stop enumerating and the run is marked exhaustive:false.
func (c *Ctx) Expired() bool {
	if c.deadline.IsZero() {
		return false
	}
	if time.Now().After(c.deadline) {
		c.Cap("wall-clock budget")
		return true
	}
	return false
}

// Deadline returns the worker's budget deadline (zero = none).
func (c *Ctx) Deadline() time.Time { return c.deadline }

// Mode is the harness mode ("" or "race" for the free-running pass).
func (c *Ctx) Mode() string { return c.mode }

// Case marks the case being evaluated (for the stall watchdog).
func (c *Ctx) Case(label string, data interface{}) {
	c.curCase.Store(&caseMark{label: label, data: data, since: time.Now()})
}

// StartWatchdog reports a violation "stall/<label>" and ends the worker (summary written, exit 0) when
// one case has been running for longer than limit of real time. It is a last resort behind
// deterministic step horizons: limit must be generous.
func (c *Ctx) StartWatchdog(limit time.Duration) {
	go func() {
		for {
			time.Sleep(500 * time.Millisecond)
			m, _ := c.curCase.Load().(*caseMark)
			if m == nil || m.label == "" {
				continue
			}
			if time.Since(m.since) > limit {
				c.Violation("stall/"+m.label, fmt.Sprintf("the call did not return within %v of real time (%s)", limit, m.label), m.data)
				c.Cap("worker ended by the stall watchdog")
				c.finish("")
				os.Exit(0)
			}
		}
	}()
}

// Try runs f and converts a panic into (true, message).
func Try(f func()) (panicked bool, msg string) {
	defer func() {
		if r := recover(); r != nil {
			panicked = true
			msg = fmt.Sprint(r)
		}
	}()
	f()
	return
}

// TryStack is Try plus a short stack of the panic site.
func TryStack(f func()) (panicked bool, msg string, stack string) {
	defer func() {
		if r := recover(); r != nil {
			panicked = true
			msg = fmt.Sprint(r)
			stack = string(debug.Stack())
		}
	}()
	f()
	return
}

// PanicSite extracts the first library function on a panic stack (for violation keys).
func PanicSite(stack string) string {
	for _, ln := range strings.Split(stack, "\n") {
		if i := strings.Index(ln, "go-oryx-lib/"); i >= 0 && !strings.HasPrefix(ln, "\t") && !strings.Contains(ln, "verifshim") {
			fn := ln[i+len("go-oryx-lib/"):]
			if j := strings.LastIndex(fn, "("); j > 0 {
				fn = fn[:j]
			}
			return fn
		}
	}
	return "unknown"
}

func Hex(b []byte) string {
	if len(b) > 96 {
		return hex.EncodeToString(b[:48]) + fmt.Sprintf("...(%d bytes)...", len(b)) + hex.EncodeToString(b[len(b)-16:])
	}
	return hex.EncodeToString(b)
}

// Pattern returns n position-dependent bytes (so any shift or loss shows).
func Pattern(n int, salt byte) []byte {
	b := make([]byte, n)
	for i := range b {
		b[i] = byte(i*7+i/251) ^ salt
	}
	return b
}

type Check struct {
	ID     string
	Level  string // evidence level
	Run    func(c *Ctx)
	Replay func(c *Ctx, raw json.RawMessage) // optional
}

// Main is the entry point of every harness binary.
func Main(chk Check) {
	tier := flag.String("tier", "quick", "quick|thorough")
	shard := flag.Int("shard", 0, "shard index")
	nshards := flag.Int("nshards", 1, "number of shards")
	out := flag.String("out", "", "summary output file (default stdout)")
	seed := flag.Int64("seed", 0, "rotates shard assignment only")
	budget := flag.Duration("budget", 0, "wall-clock budget; hitting it ends the run with exhaustive:false")
	replay := flag.String("replay", "", "replay file")
	mode := flag.String("mode", "", "\"race\": free-running pass of the thread bodies for the race detector")
	flag.Parse()

	c := &Ctx{ID: chk.ID, Tier: *tier, Shard: *shard, NShards: *nshards, Seed: *seed, Replay: *replay,
		counters: map[string]int64{}, distinct: map[string]*dset{}, info: map[string]interface{}{},
		viol: map[string]*Violation{}, caps: map[string]bool{}, maxSample: 6, start: time.Now(), level: chk.Level, mode: *mode}
	if *budget > 0 {
		c.deadline = time.Now().Add(*budget)
	}
	if *seed < 0 {
		c.Seed = -*seed
	}
	var engineErr string
	c.finish = func(engineErr string) {
		c.mu.Lock()
		defer c.mu.Unlock()
		s := &Summary{Property: chk.ID, Tier: *tier, Shard: *shard, NShards: *nshards, Level: chk.Level,
			Counters: c.counters, Distinct: map[string]int64{}, Info: c.info, Samples: c.samples,
			Exhaustive: len(c.caps) == 0, Rule: c.rule, Assume: c.assume,
			WallS: time.Since(c.start).Seconds(), EngineErr: engineErr}
		for k, m := range c.distinct {
			s.Distinct[k] = m.size()
		}
		for k := range c.caps {
			s.Caps = append(s.Caps, k)
		}
		sort.Strings(s.Caps)
		keys := make([]string, 0, len(c.viol))
		for k := range c.viol {
			keys = append(keys, k)
		}
		sort.Strings(keys)
		for _, k := range keys {
			s.Violations = append(s.Violations, c.viol[k])
		}
		b, err := json.MarshalIndent(s, "", " ")
		if err != nil {
			fmt.Fprintln(os.Stderr, "summary marshal:", err)
			os.Exit(2)
		}
		if *out == "" {
			os.Stdout.Write(b)
			os.Stdout.Write([]byte("\n"))
		} else if err := os.WriteFile(*out, b, 0644); err != nil {
			fmt.Fprintln(os.Stderr, err)
			os.Exit(2)
		}

	}
	func() {
		defer func() {
			if r := recover(); r != nil {
				engineErr = fmt.Sprintf("harness panic: %v\n%s", r, debug.Stack())
			}
		}()
		if *replay != "" {
			if chk.Replay == nil {
				engineErr = "this harness has no replay entry"
				return
			}
			raw, err := os.ReadFile(*replay)
			if err != nil {
				engineErr = err.Error()
				return
			}
			var rf struct {
				Case json.RawMessage `json:"case"`
			}
			if err := json.Unmarshal(raw, &rf); err != nil {
				engineErr = err.Error()
				return
			}
			chk.Replay(c, rf.Case)
			return
		}
		chk.Run(c)
	}()

	c.finish(engineErr)
	if engineErr != "" {
		fmt.Fprintln(os.Stderr, engineErr)
		os.Exit(2)
	}
}
