// Command verif is the driver: it instruments /repo's current working tree
// into a scratch overlay, builds one harness per property, runs it in sharded
// worker processes, merges their summaries, classifies violations against
// known_findings.json and writes evidence/<id>.json.
package main

import (
	"bytes"
	"encoding/json"
	"flag"
	"fmt"
	"os"
	"os/exec"
	"path/filepath"
	"regexp"
	"sort"
	"strconv"
	"strings"
	"sync"
	"time"

	"verif/hl"
	"verif/instr"
)

const verifRoot = "/verif"

// repoRoot is /repo; VERIF_REPO points the driver at another checkout of the library (used only to
// evaluate seeded changes in scratch worktrees without touching /repo: the module replacement is
// redirected with -modfile and no evidence file is written).
var repoRoot = func() string {
	if r := os.Getenv("VERIF_REPO"); r != "" {
		return r
	}
	return "/repo"
}()

func altRepo() bool { return repoRoot != "/repo" }

type cfg struct {
	id        string
	pkg       string // harness package, relative to engine/
	level     string
	workers   int
	instr     []instr.PkgRules
	race      bool // run a free-running -race pass of the same harness (-mode race)
	quickBud  time.Duration
	thoroBud  time.Duration
	raceQuick time.Duration
	raceThoro time.Duration
}

func goEnv() []string {
	env := os.Environ()
	env = append(env, "GOFLAGS=-mod=mod", "GOPROXY=off", "GOSUMDB=off", "GOTOOLCHAIN=local", "CGO_ENABLED=1")
	return env
}

func fatal(code int, f string, a ...interface{}) {
	fmt.Fprintf(os.Stderr, "verif: "+f+"\n", a...)
	os.Exit(code)
}

func main() {
	if len(os.Args) < 2 {
		fatal(2, "usage: verif check <id> [--tier quick|thorough] | replay <id> <path> | warm | list")
	}
	switch os.Args[1] {
	case "check":
		fs := flag.NewFlagSet("check", flag.ExitOnError)
		tier := fs.String("tier", os.Getenv("VERIF_TIER"), "quick|thorough")
		workers := fs.Int("workers", 0, "override worker count")
		keep := fs.Bool("keep", false, "keep scratch dir")
		if len(os.Args) < 3 {
			fatal(2, "check needs a property id")
		}
		fs.Parse(os.Args[3:])
		if *tier == "" {
			*tier = "quick"
		}
		os.Exit(runCheck(os.Args[2], *tier, *workers, *keep))
	case "replay":
		if len(os.Args) < 4 {
			fatal(2, "replay <id> <path>")
		}
		os.Exit(runReplay(os.Args[2], os.Args[3]))
	case "warm":
		os.Exit(runWarm())
	case "list":
		for _, c := range configs() {
			fmt.Println(c.id, c.pkg, c.level)
		}
	default:
		fatal(2, "unknown command %q", os.Args[1])
	}
}

func findCfg(id string) *cfg {
	for _, c := range configs() {
		if c.id == id {
			cc := c
			return &cc
		}
	}
	return nil
}

// build instruments the working tree and builds the harness; returns the
// binary path. race adds -race.
func build(c *cfg, scratch string, race bool) (string, map[string]int, error) {
	ov, sites, err := instr.BuildOverlay(repoRoot, filepath.Join(verifRoot, "engine"), scratch, c.instr)
	if err != nil {
		return "", nil, fmt.Errorf("instrument: %v", err)
	}
	bin := filepath.Join(scratch, strings.ToLower(c.id))
	args := []string{"build", "-tags", "verif", "-overlay", ov, "-o", bin}
	if race {
		bin += ".race"
		args = []string{"build", "-race", "-tags", "verif", "-overlay", ov, "-o", bin}
	}
	if altRepo() {
		mod := filepath.Join(scratch, "alt.mod")
		os.WriteFile(mod, []byte("module verif\n\ngo 1.23\n\nrequire github.com/ossrs/go-oryx-lib v0.0.0\n\nreplace github.com/ossrs/go-oryx-lib => "+repoRoot+"\n"), 0644)
		os.WriteFile(filepath.Join(scratch, "alt.sum"), nil, 0644)
		args = append(args, "-modfile", mod)
	}
	args = append(args, "./"+c.pkg)
	cmd := exec.Command("go", args...)
	cmd.Dir = filepath.Join(verifRoot, "engine")
	cmd.Env = goEnv()
	var out bytes.Buffer
	cmd.Stdout, cmd.Stderr = &out, &out
	if err := cmd.Run(); err != nil {
		return "", nil, fmt.Errorf("go build failed: %v\n%s", err, out.String())
	}
	return bin, sites, nil
}

type known struct {
	Property string `json:"property"`
	Key      string `json:"key"`
	Status   string `json:"status"` // known | fixed
	Commit   string `json:"commit,omitempty"`
	What     string `json:"what"`
	Example  string `json:"example,omitempty"`
}

func loadKnown() []known {
	var f struct {
		Findings []known `json:"findings"`
	}
	b, err := os.ReadFile(filepath.Join(verifRoot, "known_findings.json"))
	if err != nil {
		return nil
	}
	if err := json.Unmarshal(b, &f); err != nil {
		fatal(2, "known_findings.json: %v", err)
	}
	return f.Findings
}

var keySan = regexp.MustCompile(`[^A-Za-z0-9._-]+`)

// knownFinding returns the description of a listed known finding with exactly this key ("" if none).
func knownFinding(id, key string) string {
	for _, k := range loadKnown() {
		if k.Property == id && k.Status == "known" && k.Key == key {
			return k.What
		}
	}
	return ""
}

func runWorkers(bin string, c *cfg, tier string, n int, budget time.Duration, seed int64, scratch string, extra []string, extraEnv []string) ([]*hl.Summary, []string, error) {
	sums := make([]*hl.Summary, n)
	stderrs := make([]string, n)
	errs := make([]error, n)
	var wg sync.WaitGroup
	grace := budget*2 + 180*time.Second
	for i := 0; i < n; i++ {
		wg.Add(1)
		go func(i int) {
			defer wg.Done()
			out := filepath.Join(scratch, fmt.Sprintf("out.%s.%d.json", filepath.Base(bin), i))
			args := []string{"-tier", tier, "-shard", strconv.Itoa(i), "-nshards", strconv.Itoa(n), "-out", out,
				"-seed", strconv.FormatInt(seed, 10), "-budget", budget.String()}
			args = append(args, extra...)
			cmd := exec.Command(bin, args...)
			cmd.Dir = scratch
			cmd.Env = append(os.Environ(), extraEnv...)
			var eb bytes.Buffer
			cmd.Stderr = &eb
			cmd.Stdout = &eb
			if err := cmd.Start(); err != nil {
				errs[i] = err
				return
			}
			done := make(chan error, 1)
			go func() { done <- cmd.Wait() }()
			var werr error
			select {
			case werr = <-done:
			case <-time.After(grace):
				cmd.Process.Kill()
				<-done
				werr = fmt.Errorf("worker %d exceeded budget %v + grace %v (killed)", i, budget, grace)
			}
			stderrs[i] = eb.String()
			b, rerr := os.ReadFile(out)
			if rerr == nil {
				var s hl.Summary
				if jerr := json.Unmarshal(b, &s); jerr == nil {
					sums[i] = &s
				} else {
					errs[i] = jerr
				}
			}
			if werr != nil && sums[i] == nil {
				errs[i] = fmt.Errorf("%v\n%s", werr, tail(eb.String(), 4000))
			} else if werr != nil && errs[i] == nil && sums[i].EngineErr != "" {
				errs[i] = fmt.Errorf("%v: %s", werr, sums[i].EngineErr)
			} else if werr != nil && errs[i] == nil {
				// non-zero exit with a summary: race detector exit code or crash after writing
				stderrs[i] += "\n[exit] " + werr.Error()
			}
		}(i)
	}
	wg.Wait()
	for _, e := range errs {
		if e != nil {
			return sums, stderrs, e
		}
	}
	return sums, stderrs, nil
}

var fatalRe = regexp.MustCompile(`(?m)^(fatal error: [^\n]+|runtime: goroutine stack exceeds[^\n]*)`)
var libFrameRe = regexp.MustCompile(`github\.com/ossrs/go-oryx-lib/((?:[a-z0-9]+/)*[a-z0-9]+)\.((?:\(\*?[A-Za-z0-9_]+\)\.)?[A-Za-z0-9_.]+)\(`)

// fatalInLibrary recognises a Go runtime fatal error in a worker's output whose stack runs through the library (not
// through the injected verifshim packages) and turns it into a violation key fatal/<error>/<innermost library function>.
func fatalInLibrary(out string) (key, what string) {
	m := fatalRe.FindString(out)
	if m == "" {
		return "", ""
	}
	i := strings.Index(out, m)
	rest := out[i:]
	for _, f := range libFrameRe.FindAllStringSubmatch(rest, -1) {
		if strings.HasPrefix(f[1], "verifshim") {
			continue
		}
		msg := strings.TrimPrefix(m, "fatal error: ")
		if strings.HasPrefix(m, "runtime: goroutine stack exceeds") {
			msg = "stack overflow"
		}
		key = "fatal/" + strings.ReplaceAll(msg, " ", "-") + "/" + f[1] + "." + f[2]
		if len(rest) > 6000 {
			rest = rest[:6000]
		}
		return key, "a worker process was killed by the Go runtime inside the library: " + m + " in " + f[1] + "." + f[2] + "\n" + rest
	}
	return "", ""
}

func tail(s string, n int) string {
	if len(s) > n {
		return "..." + s[len(s)-n:]
	}
	return s
}

func runCheck(id, tier string, workersOverride int, keep bool) int {
	start := time.Now()
	c := findCfg(id)
	if c == nil {
		fatal(2, "unknown property %s", id)
	}
	if tier != "quick" && tier != "thorough" {
		fatal(2, "bad tier %q", tier)
	}
	seed := int64(0)
	if s := os.Getenv("VERIF_SEED"); s != "" {
		if v, err := strconv.ParseInt(s, 10, 64); err == nil {
			seed = v
		}
	}
	scratch, err := os.MkdirTemp("", "verif-"+strings.ToLower(id)+"-")
	if err != nil {
		fatal(2, "%v", err)
	}
	if !keep {
		defer os.RemoveAll(scratch)
	} else {
		fmt.Fprintln(os.Stderr, "scratch:", scratch)
	}
	exit := func(code int) int {
		if !keep {
			os.RemoveAll(scratch)
		}
		return code
	}

	bin, sites, err := build(c, scratch, false)
	if err != nil {
		fmt.Fprintf(os.Stderr, "ENGINE-ERROR property=%s %v\n", id, err)
		return exit(2)
	}
	n := c.workers
	if n <= 0 {
		n = 16
	}
	if workersOverride > 0 {
		n = workersOverride
	}
	budget := c.quickBud
	if tier == "thorough" {
		budget = c.thoroBud
	}
	if budget == 0 {
		budget = 100 * time.Second
		if tier == "thorough" {
			budget = 15 * time.Minute
		}
	}
	sums, stderrs, err := runWorkers(bin, c, tier, n, budget, seed, scratch, nil, []string{"GOMAXPROCS=" + gomaxprocs(n)})
	if err != nil {
		// a worker killed by the Go runtime (stack overflow, concurrent map access, out of memory ...) with the library on
		// the stack is a verdict about the library, not about the engine: the decoder/encoder under test crashed the process
		if key, what := fatalInLibrary(err.Error()); key != "" {
			os.MkdirAll(filepath.Join(verifRoot, "replays", id), 0755)
			path := filepath.Join(verifRoot, "replays", id, keySan.ReplaceAllString(key, "_")+".txt")
			os.WriteFile(path, []byte(what), 0644)
			if kf := knownFinding(id, key); kf != "" {
				fmt.Printf("KNOWN-FINDING: property=%s key=%s %s\n", id, key, kf)
				return exit(0)
			}
			fmt.Printf("VIOLATION property=%s replay=%s\n  key=%s\n  %s\n", id, path, key, strings.SplitN(what, "\n", 2)[0])
			return exit(1)
		}
		fmt.Fprintf(os.Stderr, "ENGINE-ERROR property=%s %v\n", id, err)
		return exit(2)
	}
	_ = stderrs

	// merge
	counters := map[string]int64{}
	distinct := map[string]int64{}
	info := map[string]interface{}{}
	var samples []interface{}
	viol := map[string]*hl.Violation{}
	exhaustive := true
	capset := map[string]bool{}
	rule := ""
	var assume []string
	for _, s := range sums {
		if s == nil {
			continue
		}
		for k, v := range s.Counters {
			counters[k] += v
		}
		for k, v := range s.Distinct {
			distinct[k] += v
		}
		for k, v := range s.Info {
			if _, ok := info[k]; !ok {
				info[k] = v
			}
		}
		if s.Rule != "" {
			rule = s.Rule
		}
		if len(s.Assume) > 0 && assume == nil {
			assume = s.Assume
		}
		if !s.Exhaustive {
			exhaustive = false
		}
		for _, cp := range s.Caps {
			capset[cp] = true
		}
		for _, v := range s.Violations {
			if o := viol[v.Key]; o != nil {
				o.Count += v.Count
			} else {
				viol[v.Key] = v
			}
		}
	}
	// samples: round-robin over shards, up to 8
	for round := 0; len(samples) < 8 && round < 6; round++ {
		for _, s := range sums {
			if s != nil && round < len(s.Samples) && len(samples) < 8 {
				samples = append(samples, s.Samples[round])
			}
		}
	}

	// race pass
	raceInfo := map[string]interface{}{}
	var raceErr error
	if c.race {
		rbin, _, err := build(c, scratch, true)
		if err != nil {
			fmt.Fprintf(os.Stderr, "ENGINE-ERROR property=%s race build: %v\n", id, err)
			return exit(2)
		}
		rb := c.raceQuick
		if tier == "thorough" {
			rb = c.raceThoro
		}
		if rb == 0 {
			rb = 20 * time.Second
			if tier == "thorough" {
				rb = 120 * time.Second
			}
		}
		rs, rerrs, err := runWorkers(rbin, c, tier, 1, rb, seed, scratch, []string{"-mode", "race"},
			[]string{"GORACE=halt_on_error=0 exitcode=0 history_size=2"})
		if err != nil {
			// the scheduled exploration's verdict is not discarded: the failure of the free-running pass is reported as an
			// engine error only if nothing else was found
			raceErr = err
			rs, rerrs = []*hl.Summary{nil}, []string{""}
		}
		races := parseRaces(rerrs[0])
		raceInfo["race_reports"] = len(races)
		if rs[0] != nil {
			raceInfo["race_free_runs"] = rs[0].Counters["race_runs"]
			for _, v := range rs[0].Violations {
				if o := viol[v.Key]; o != nil {
					o.Count += v.Count
				} else {
					viol[v.Key] = v
				}
			}
		}
		for k, text := range races {
			if viol[k] == nil {
				viol[k] = &hl.Violation{Key: k, What: "data race reported by the Go race detector in the free-running pass", Case: map[string]interface{}{"report": text}, Count: 1}
			}
		}
	}

	// classify
	kn := loadKnown()
	isKnown := func(key string) *known {
		for i := range kn {
			if kn[i].Property == id && kn[i].Status == "known" && kn[i].Key == key {
				return &kn[i]
			}
		}
		return nil
	}
	keys := make([]string, 0, len(viol))
	for k := range viol {
		keys = append(keys, k)
	}
	sort.Strings(keys)
	nviol := 0
	knownHit := []string{}
	os.MkdirAll(filepath.Join(verifRoot, "replays", id), 0755)
	for _, k := range keys {
		v := viol[k]
		if kf := isKnown(k); kf != nil {
			fmt.Printf("KNOWN-FINDING: property=%s key=%s %s (cases=%d)\n", id, k, kf.What, v.Count)
			knownHit = append(knownHit, k)
			continue
		}
		nviol++
		path := filepath.Join(verifRoot, "replays", id, keySan.ReplaceAllString(k, "_")+".json")
		rb, _ := json.MarshalIndent(map[string]interface{}{"property": id, "key": k, "what": v.What, "tier": tier, "case": v.Case, "count": v.Count,
			"replay_cmd": fmt.Sprintf("/verif/bin/verif replay %s %s", id, path)}, "", " ")
		os.WriteFile(path, rb, 0644)
		fmt.Printf("VIOLATION property=%s replay=%s\n", id, path)
		fmt.Printf("  key=%s cases=%d\n  %s\n", k, v.Count, strings.ReplaceAll(tail(v.What, 1500), "\n", "\n  "))
	}

	// evidence
	cov := map[string]interface{}{}
	for k, v := range counters {
		cov[k] = v
	}
	for k, v := range distinct {
		cov[k] = v
	}
	for k, v := range info {
		cov[k] = v
	}
	for k, v := range raceInfo {
		cov[k] = v
	}
	if _, ok := cov["evaluations"]; !ok {
		cov["evaluations"] = int64(0)
	}
	if _, ok := cov["distinct_nontrivial"]; !ok {
		cov["distinct_nontrivial"] = int64(0)
	}
	cov["rule"] = rule
	if samples == nil {
		samples = []interface{}{}
	}
	cov["samples"] = samples
	cov["exhaustive"] = exhaustive
	caps := []string{}
	for k := range capset {
		caps = append(caps, k)
	}
	sort.Strings(caps)
	cov["caps_hit"] = caps
	cov["instrumented_sites"] = sites
	cov["workers"] = n
	cov["known_findings_reproduced"] = knownHit
	ev := map[string]interface{}{
		"property_id": id, "tier": tier, "seed": seed, "level": c.level, "coverage": cov,
		"assumptions": assume, "wall_s": time.Since(start).Seconds(), "violations": nviol,
	}
	if assume == nil {
		ev["assumptions"] = []string{}
	}
	eb, _ := json.MarshalIndent(ev, "", " ")
	os.MkdirAll(filepath.Join(verifRoot, "evidence"), 0755)
	evPath := filepath.Join(verifRoot, "evidence", id+".json")
	if altRepo() {
		evPath = filepath.Join(scratch, id+".evidence.json") // not evidence: a run against another checkout
	}
	if err := os.WriteFile(evPath, eb, 0644); err != nil {
		fmt.Fprintf(os.Stderr, "ENGINE-ERROR property=%s %v\n", id, err)
		return exit(2)
	}
	fmt.Printf("%s tier=%s evaluations=%v distinct=%v states=%v transitions=%v exhaustive=%v caps=%v known=%d violations=%d wall=%.1fs\n",
		id, tier, cov["evaluations"], cov["distinct_nontrivial"], cov["states"], cov["transitions"], exhaustive, caps, len(knownHit), nviol, time.Since(start).Seconds())
	if nviol > 0 {
		return exit(1)
	}
	if raceErr != nil {
		fmt.Fprintf(os.Stderr, "ENGINE-ERROR property=%s race pass: %v\n", id, raceErr)
		return exit(2)
	}
	return exit(0)
}

func gomaxprocs(workers int) string {
	if workers >= 8 {
		return "1"
	}
	p := 16 / workers
	if p < 1 {
		p = 1
	}
	return strconv.Itoa(p)
}

var raceFn = regexp.MustCompile(`(?m)^  ([A-Za-z0-9_./()*\-]+)\(`)

// parseRaces splits race detector output into reports keyed by the two top
// library frames involved.
func parseRaces(stderr string) map[string]string {
	res := map[string]string{}
	parts := strings.Split(stderr, "WARNING: DATA RACE")
	for _, p := range parts[1:] {
		end := strings.Index(p, "==================")
		if end > 0 {
			p = p[:end]
		}
		// sections: "Write at ... by goroutine N:" / "Previous read at ...:"
		secs := regexp.MustCompile(`(?m)^(Read|Write|Previous read|Previous write|Atomic|Previous atomic)[^\n]*\n`).Split(p, -1)
		var tops []string
		lib := 0
		for _, s := range secs[1:] {
			// owner frame of this access: the first frame outside the Go runtime / standard library
			for _, m := range raceFn.FindAllStringSubmatch(s, -1) {
				fn := m[1]
				if strings.Contains(fn, "go-oryx-lib/") && !strings.Contains(fn, "verifshim") {
					tops = append(tops, fn[strings.Index(fn, "go-oryx-lib/")+len("go-oryx-lib/"):])
					lib++
					break
				}
				if strings.HasPrefix(fn, "main.") || strings.HasPrefix(fn, "verif/") || strings.Contains(fn, "verifshim") {
					tops = append(tops, "harness:"+fn)
					break
				}
			}
			if len(tops) == 2 {
				break
			}
		}
		if lib == 0 {
			// both accesses are in harness code: a harness bug, not a property violation
			fmt.Fprintf(os.Stderr, "HARNESS-RACE (ignored for the verdict, fix the harness): %v\n", tops)
			continue
		}
		sort.Strings(tops)
		k := "data-race/" + strings.Join(tops, "+")
		if len(tops) == 0 {
			k = "data-race/harness-or-unknown"
		}
		if _, ok := res[k]; !ok {
			res[k] = tail("WARNING: DATA RACE"+p, 3000)
		}
	}
	return res
}

func runReplay(id, path string) int {
	c := findCfg(id)
	if c == nil {
		fatal(2, "unknown property %s", id)
	}
	scratch, err := os.MkdirTemp("", "verif-replay-")
	if err != nil {
		fatal(2, "%v", err)
	}
	defer os.RemoveAll(scratch)
	bin, _, err := build(c, scratch, false)
	if err != nil {
		fmt.Fprintf(os.Stderr, "ENGINE-ERROR %v\n", err)
		return 2
	}
	abs, _ := filepath.Abs(path)
	outf := filepath.Join(scratch, "replay.out.json")
	cmd := exec.Command(bin, "-replay", abs, "-out", outf)
	cmd.Dir = scratch
	cmd.Stderr = os.Stderr
	if err := cmd.Run(); err != nil {
		fmt.Fprintf(os.Stderr, "ENGINE-ERROR replay: %v\n", err)
		return 2
	}
	ob, _ := os.ReadFile(outf)
	var s hl.Summary
	if err := json.Unmarshal(ob, &s); err != nil {
		fmt.Fprintf(os.Stderr, "ENGINE-ERROR replay summary: %v\n%s\n", err, string(ob))
		return 2
	}
	if len(s.Violations) == 0 {
		fmt.Printf("replay %s: case passes on the current tree\n", id)
		return 0
	}
	for _, v := range s.Violations {
		fmt.Printf("VIOLATION property=%s replay=%s\n  key=%s\n  %s\n", id, abs, v.Key, v.What)
	}
	return 1
}

// runWarm builds every harness once (plain, and -race where used) to fill the
// build cache. It runs no checks.
func runWarm() int {
	cs := configs()
	sem := make(chan struct{}, 4)
	var wg sync.WaitGroup
	var mu sync.Mutex
	rc := 0
	for i := range cs {
		c := cs[i]
		if _, err := os.Stat(filepath.Join(verifRoot, "engine", c.pkg)); err != nil {
			continue
		}
		wg.Add(1)
		go func() {
			defer wg.Done()
			sem <- struct{}{}
			defer func() { <-sem }()
			scratch, err := os.MkdirTemp("", "verif-warm-")
			if err != nil {
				return
			}
			defer os.RemoveAll(scratch)
			t := time.Now()
			if _, _, err := build(&c, scratch, false); err != nil {
				mu.Lock()
				// not fatal: the check's own command rebuilds and reports
				fmt.Fprintf(os.Stderr, "warm %s: %v\n", c.id, err)
				mu.Unlock()
				return
			}
			if c.race {
				if _, _, err := build(&c, scratch, true); err != nil {
					mu.Lock()
					fmt.Fprintf(os.Stderr, "warm %s (race): %v\n", c.id, err)
					rc = 2
					mu.Unlock()
					return
				}
			}
			fmt.Printf("warm %s ok %.1fs\n", c.id, time.Since(t).Seconds())
		}()
	}
	wg.Wait()
	return rc
}
