package main

import (
	"time"

	"verif/instr"
)

var _ = time.Second
var _ = instr.PkgRules{}

func configs() []cfg {
	return []cfg{
		{id: "C11", pkg: "checks/c11", level: "exploration", workers: 16},
	}
}
