package main

import (
	"time"

	"verif/instr"
)

var _ = time.Second

func configs() []cfg {
	rtmpI := []instr.PkgRules{{Pkg: "rtmp", SyncSwap: true, Atomics: true}, {Pkg: "amf0", SyncSwap: true, Atomics: true}}
	wsI := []instr.PkgRules{{Pkg: "websocket", SyncSwap: true, ChanLock: []string{"mu"}, Export: "websocket/verif_export.go"}}
	return []cfg{
		{id: "C01", pkg: "checks/c01", level: "model_checking", workers: 16},
		{id: "C02", pkg: "checks/c02", level: "model_checking", workers: 16},
		{id: "C03", pkg: "checks/c03", level: "model_checking", workers: 16, thoroBud: 30 * time.Minute},
		{id: "C04", pkg: "checks/c04", level: "model_checking", workers: 8, instr: rtmpI, race: true},
		{id: "C05", pkg: "checks/c05", level: "exploration", workers: 16, quickBud: 150 * time.Second, thoroBud: 40 * time.Minute},
		{id: "C06", pkg: "checks/c06", level: "exploration", workers: 16, thoroBud: 40 * time.Minute},
		{id: "C07", pkg: "checks/c07", level: "exploration", workers: 16, quickBud: 150 * time.Second, thoroBud: 25 * time.Minute,
			instr: []instr.PkgRules{
				{Pkg: "websocket", SyncSwap: true, ChanLock: []string{"mu"}, Export: "websocket/verif_export.go", Ticks: true},
				{Pkg: "rtmp", Ticks: true}, {Pkg: "amf0", Ticks: true}, {Pkg: "flv", Ticks: true}, {Pkg: "aac", Ticks: true}, {Pkg: "avc", Ticks: true},
				{Pkg: "json", Ticks: true}, {Pkg: "https/jose", Ticks: true}, {Pkg: "https/jose/cipher", Ticks: true}, {Pkg: "https/crypto/ocsp", Ticks: true},
				{Pkg: "errors", Ticks: true},
			}},
		{id: "C08", pkg: "checks/c08", level: "fault_enumeration", workers: 16, quickBud: 150 * time.Second, thoroBud: 25 * time.Minute},
		{id: "C09", pkg: "checks/c09", level: "exploration", workers: 16, thoroBud: 25 * time.Minute},
		{id: "C10", pkg: "checks/c10", level: "exploration", workers: 16},
		{id: "C11", pkg: "checks/c11", level: "exploration", workers: 16},
		{id: "C12", pkg: "checks/c12", level: "exploration", workers: 16},
		{id: "C13", pkg: "checks/c13", level: "model_checking", workers: 16, instr: wsI},
		{id: "C14", pkg: "checks/c14", level: "model_checking", workers: 16, thoroBud: 60 * time.Minute,
			// the reader's own replies (pong, close echo) carry a 1 s wall-clock write deadline: the clock is frozen (R2) and timers never fire (R2b)
			instr: []instr.PkgRules{{Pkg: "websocket", SyncSwap: true, ChanLock: []string{"mu"}, Time: true, Timers: true, Export: "websocket/verif_export.go"}}},
		{id: "C15", pkg: "checks/c15", level: "model_checking", workers: 16, race: true,
			instr: []instr.PkgRules{{Pkg: "websocket", SyncSwap: true, ChanLock: []string{"mu"}, Timers: true, Atomics: true, Export: "websocket/verif_export.go"}}},
		{id: "C16", pkg: "checks/c16", level: "fault_enumeration", workers: 16, thoroBud: 25 * time.Minute,
			instr: []instr.PkgRules{{Pkg: "https/acme", Export: "acme/verif_export.go"}}},
		{id: "C17", pkg: "checks/c17", level: "exploration", workers: 16, quickBud: 150 * time.Second, thoroBud: 40 * time.Minute},
		{id: "C18", pkg: "checks/c18", level: "model_checking", workers: 8, race: true,
			instr: []instr.PkgRules{{Pkg: "logger", SyncSwap: true, Globals: []string{"gCid"}, Atomics: true}}},
		{id: "C19", pkg: "checks/c19", level: "exploration", workers: 16, thoroBud: 25 * time.Minute},
		{id: "C20", pkg: "checks/c20", level: "model_checking", workers: 16,
			instr: []instr.PkgRules{{Pkg: "kxps", SyncSwap: false, Time: true}}},
	}
}
