//go:build verif && go1.18

// Package vsync replaces "sync" in instrumented packages (rule R1). Under an
// active vsched execution Lock/Unlock/Wait are scheduling points with enabled
// predicates; otherwise the real primitives are used.
package vsync

import (
	"sync"

	"github.com/ossrs/go-oryx-lib/verifshim/vsched"
)

type Pool = sync.Pool
type Locker = sync.Locker
type Cond = sync.Cond
type Map = sync.Map

func NewCond(l Locker) *Cond { return sync.NewCond(l) }

// PointAtUnlock makes Unlock a scheduling point too.
var PointAtUnlock = true

type Mutex struct {
	mu     sync.Mutex
	locked bool
}

func (m *Mutex) Lock() {
	if vsched.Active() {
		vsched.Await("lock", func() bool { return !m.locked })
		m.locked = true
		return
	}
	m.mu.Lock()
}

func (m *Mutex) TryLock() bool {
	if vsched.Active() {
		vsched.Point("trylock")
		if m.locked {
			return false
		}
		m.locked = true
		return true
	}
	return m.mu.TryLock()
}

func (m *Mutex) Unlock() {
	if vsched.Active() {
		if PointAtUnlock {
			vsched.Point("unlock")
		}
		if !m.locked {
			panic("sync: unlock of unlocked mutex")
		}
		m.locked = false
		return
	}
	m.mu.Unlock()
}

type RWMutex struct {
	mu      sync.RWMutex
	writer  bool
	readers int
}

func (m *RWMutex) Lock() {
	if vsched.Active() {
		vsched.Await("wlock", func() bool { return !m.writer && m.readers == 0 })
		m.writer = true
		return
	}
	m.mu.Lock()
}

func (m *RWMutex) Unlock() {
	if vsched.Active() {
		if PointAtUnlock {
			vsched.Point("wunlock")
		}
		if !m.writer {
			panic("sync: Unlock of unlocked RWMutex")
		}
		m.writer = false
		return
	}
	m.mu.Unlock()
}

func (m *RWMutex) RLock() {
	if vsched.Active() {
		vsched.Await("rlock", func() bool { return !m.writer })
		m.readers++
		return
	}
	m.mu.RLock()
}

func (m *RWMutex) RUnlock() {
	if vsched.Active() {
		if PointAtUnlock {
			vsched.Point("runlock")
		}
		if m.readers <= 0 {
			panic("sync: RUnlock of unlocked RWMutex")
		}
		m.readers--
		return
	}
	m.mu.RUnlock()
}

func (m *RWMutex) RLocker() Locker { return (*rlocker)(m) }

type rlocker RWMutex

func (r *rlocker) Lock()   { (*RWMutex)(r).RLock() }
func (r *rlocker) Unlock() { (*RWMutex)(r).RUnlock() }

type Once struct {
	once    sync.Once
	done    bool
	running bool
}

func (o *Once) Do(f func()) {
	if vsched.Active() {
		vsched.Await("once", func() bool { return !o.running })
		if o.done {
			return
		}
		o.running = true
		defer func() { o.running, o.done = false, true }()
		f()
		return
	}
	o.once.Do(f)
}

type WaitGroup struct {
	wg sync.WaitGroup
	n  int
}

func (w *WaitGroup) Add(d int) {
	if vsched.Active() {
		vsched.Point("wg.add")
		w.n += d
		if w.n < 0 {
			panic("sync: negative WaitGroup counter")
		}
		return
	}
	w.wg.Add(d)
}

func (w *WaitGroup) Done() { w.Add(-1) }

func (w *WaitGroup) Wait() {
	if vsched.Active() {
		vsched.Await("wg.wait", func() bool { return w.n == 0 })
		return
	}
	w.wg.Wait()
}
