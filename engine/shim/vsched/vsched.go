//go:build verif && go1.18

// Package vsched is the controlled scheduler and the choice-tree explorer
// (engine E1). It is injected by overlay under the repository's module path so
// that instrumented library code (vsync, R3/R4 rewrites) and the harnesses
// share one instance. When no execution is active every entry point falls
// through to the real operation, so the same build serves free-running passes.
package vsched

import (
	"fmt"
	"runtime"
	"runtime/debug"
	"strings"
	"sync/atomic"
	"time"
)

// ---------------------------------------------------------------- execution

type thread struct {
	id      int
	name    string
	wake    chan struct{}
	pred    func() bool // enabled predicate of the pending point (nil = always)
	kind    string
	done    bool
	started bool
	npoints int
}

type ChoicePoint struct {
	Thread  bool // thread choice (else environment answer)
	N       int  // arity
	Chosen  int
	Preempt bool // choosing != 0 switches away from a still-enabled running thread
	Free    bool // environment choice whose alternatives cost nothing
	Label   string
	// enabled thread ids in canonical order (thread choices only)
	Enabled []int
}

type PanicInfo struct {
	Thread string
	Msg    string
	Stack  string
}

// Exec is one execution under the scheduler.
type Exec struct {
	threads []*thread
	cur     *thread
	yield   chan *thread
	aborted bool

	prefix  []int
	Points  []ChoicePoint
	horizon int

	Deadlock   bool
	Blocked    []string // names+kinds of threads blocked at deadlock
	HorizonHit bool
	Panics     []PanicInfo
	Diverged   string

	// Trace of scheduling decisions "name:kind" (for replay files).
	Trace []string
	// harness-owned per-execution data
	Data interface{}

	stateKey   func() string
	ex         *explorer
	prunedHere bool
	steps      int
}

var cur atomic.Pointer[Exec]

// Active reports whether the calling code runs under the scheduler.
func Active() bool { return cur.Load() != nil }

// Cur returns the active execution or nil.
func Cur() *Exec { return cur.Load() }

type abortT struct{}

// Point is an always-enabled scheduling point.
func Point(kind string) { Await(kind, nil) }

// Await is a scheduling point that is enabled only while pred() holds. The
// calling thread is parked (not spinning) until the scheduler picks it.
func Await(kind string, pred func() bool) {
	x := cur.Load()
	if x == nil {
		return
	}
	t := x.cur
	if t == nil {
		// setup/teardown code running in the controller: must not block
		if pred != nil && !pred() {
			panic("vsched: blocking operation (" + kind + ") outside a scheduled thread")
		}
		return
	}
	if x.aborted {
		// unwinding: deferred calls run with scheduling points switched off; an operation that could not proceed now
		// (a deferred send on a full lock channel, a lock that is held) would block for real, so the thread ends here
		// instead (its remaining deferred calls still run)
		if pred != nil && !pred() {
			runtime.Goexit()
		}
		return
	}
	t.pred, t.kind = pred, kind
	t.npoints++
	x.yield <- t
	<-t.wake
	if x.aborted {
		runtime.Goexit()
	}
}

// Go starts f as a scheduled thread (a plain goroutine when inactive).
func Go(name string, f func()) {
	x := cur.Load()
	if x == nil {
		go f()
		return
	}
	x.Go(name, f)
}

func (x *Exec) Go(name string, f func()) {
	t := &thread{id: len(x.threads), name: name, wake: make(chan struct{}), kind: "start"}
	x.threads = append(x.threads, t)
	go func() {
		defer func() {
			if r := recover(); r != nil {
				x.Panics = append(x.Panics, PanicInfo{Thread: t.name, Msg: fmt.Sprint(r), Stack: trimStack(string(debug.Stack()))})
			}
			t.done = true
			x.yield <- t
		}()
		<-t.wake
		if x.aborted {
			return
		}
		t.started = true
		f()
	}()
}

func trimStack(s string) string {
	lines := strings.Split(s, "\n")
	var keep []string
	for i := 0; i < len(lines) && len(keep) < 24; i++ {
		if strings.Contains(lines[i], "runtime/debug") || strings.Contains(lines[i], "vsched") && strings.Contains(lines[i], "func1") {
			continue
		}
		keep = append(keep, lines[i])
	}
	return strings.Join(keep, "\n")
}

// Choose is an environment choice made by harness code running in a thread
// (or in the controller). Alternative 0 is the default answer; a non-zero
// answer costs one deviation unless free.
func (x *Exec) Choose(n int, free bool, label string) int {
	if n <= 1 {
		return 0
	}
	i := len(x.Points)
	c := 0
	if i < len(x.prefix) {
		c = x.prefix[i]
		if c >= n {
			x.Diverged = fmt.Sprintf("choice %d: recorded %d but arity %d (%s)", i, c, n, label)
			c = 0
		}
	}
	x.Points = append(x.Points, ChoicePoint{Thread: false, N: n, Chosen: c, Free: free, Label: label})
	return c
}

// Choose on the active execution; 0 when inactive.
func Choose(n int, free bool, label string) int {
	x := cur.Load()
	if x == nil {
		return 0
	}
	return x.Choose(n, free, label)
}

func (x *Exec) enabled() []*thread {
	var en []*thread
	if x.cur != nil && !x.cur.done && (x.cur.pred == nil || x.cur.pred()) {
		en = append(en, x.cur)
	}
	for _, t := range x.threads {
		if t == x.cur || t.done {
			continue
		}
		if t.pred == nil || t.pred() {
			en = append(en, t)
		}
	}
	return en
}

// CurrentThread names the thread that is running ("" in setup/teardown).
func (x *Exec) CurrentThread() string {
	if x.cur == nil {
		return ""
	}
	return x.cur.name
}

// ThreadPositions returns "id:npoints:done" for every thread (state keys).
func (x *Exec) ThreadPositions() string {
	var b strings.Builder
	for _, t := range x.threads {
		fmt.Fprintf(&b, "%d:%d:%v;", t.id, t.npoints, t.done)
	}
	return b.String()
}

// run drives the threads until all are done, deadlock or horizon.
func (x *Exec) run() {
	for {
		en := x.enabled()
		if len(en) == 0 {
			all := true
			for _, t := range x.threads {
				if !t.done {
					all = false
					x.Blocked = append(x.Blocked, t.name+"@"+t.kind)
				}
			}
			if !all {
				x.Deadlock = true
				x.abort()
			}
			return
		}
		x.steps++
		if len(x.Points) >= x.horizon || x.steps >= x.horizon*16 {
			x.HorizonHit = true
			x.abort()
			return
		}
		choice := 0
		if len(en) > 1 {
			// state pruning: a (state, positions) pair already expanded need not be expanded again
			if x.ex != nil && x.stateKey != nil && len(x.Points) >= len(x.prefix) {
				k := x.stateKey() + "|" + x.ThreadPositions() + "|" + fmt.Sprint(curID(x.cur))
				if x.ex.seen(k, x.ex.costSoFar(x)) {
					x.ex.pruned++
					x.Diverged = "" // not a divergence
					x.prunedHere = true
					x.abort()
					return
				}
			}
			i := len(x.Points)
			if i < len(x.prefix) {
				choice = x.prefix[i]
				if choice >= len(en) {
					x.Diverged = fmt.Sprintf("thread choice %d: recorded %d but %d enabled", i, choice, len(en))
					choice = 0
				}
			}
			ids := make([]int, len(en))
			for j, t := range en {
				ids[j] = t.id
			}
			pre := x.cur != nil && en[0] == x.cur
			x.Points = append(x.Points, ChoicePoint{Thread: true, N: len(en), Chosen: choice, Preempt: pre, Enabled: ids})
		}
		t := en[choice]
		x.cur = t
		if len(x.Trace) < 4096 {
			x.Trace = append(x.Trace, t.name+":"+t.kind)
		}
		t.wake <- struct{}{}
		<-x.yield // the running thread reaches its next point or finishes
	}
}

func curID(t *thread) int {
	if t == nil {
		return -1
	}
	return t.id
}

// abort unwinds every unfinished thread (deferred calls run, scheduling points
// become no-ops).
func (x *Exec) abort() {
	x.aborted = true
	for _, t := range x.threads {
		if t.done {
			continue
		}
		x.cur = t
		select {
		case t.wake <- struct{}{}:
			// wait for it to finish, with a guard against a thread blocked in a real operation
			tm := time.NewTimer(2 * time.Second)
			select {
			case <-x.yield:
			case <-tm.C:
				// leaked: blocked in a real (uninstrumented) operation during unwinding
			}
			tm.Stop()
		case <-time.After(2 * time.Second):
		}
	}
	x.cur = nil
}

// ---------------------------------------------------------------- explorer

type Options struct {
	Bound     int   // max deviation cost; < 0 = unbounded
	Horizon   int   // max choice points per execution (default 2000)
	MaxExec   int64 // stop after this many executions (0 = no cap) -> Capped
	Deadline  time.Time
	StateKey  func(x *Exec) string // optional: enables state-key pruning
	Shard     int
	NShards   int // shard the level-ShardDepth subtrees over processes
	ShardDepth int
}

type Result struct {
	Executions  int64
	ChoicePts   int64
	MaxPoints   int
	Deadlocks   int64
	HorizonHits int64
	Pruned      int64
	Capped      bool
	CapReason   string
	EngineError string
	States      int64 // distinct state keys (when pruning)
}

type explorer struct {
	opt    Options
	res    Result
	setup  func(x *Exec)
	check  func(x *Exec)
	states map[string]int // state key -> lowest cost it was expanded with
	pruned int64
	stop   bool
	sub    int64
}

func (e *explorer) seen(k string, cost int) bool {
	if c, ok := e.states[k]; ok && c <= cost {
		return true
	}
	e.states[k] = cost
	return false
}

func (e *explorer) costSoFar(x *Exec) int {
	c := 0
	for _, p := range x.Points {
		c += pointCost(p, p.Chosen)
	}
	return c
}

func pointCost(p ChoicePoint, alt int) int {
	if alt == 0 {
		return 0
	}
	if p.Thread {
		if p.Preempt {
			return 1
		}
		return 0
	}
	if p.Free {
		return 0
	}
	return 1
}

// RunOne executes setup and its threads once under the given choice prefix.
func RunOne(prefix []int, horizon int, setup func(x *Exec)) *Exec {
	return runOne(nil, prefix, horizon, setup)
}

func runOne(e *explorer, prefix []int, horizon int, setup func(x *Exec)) *Exec {
	if horizon <= 0 {
		horizon = 2000
	}
	x := &Exec{yield: make(chan *thread), prefix: prefix, horizon: horizon, ex: e}
	if e != nil && e.opt.StateKey != nil {
		x.stateKey = func() string { return e.opt.StateKey(x) }
	}
	if !cur.CompareAndSwap(nil, x) {
		panic("vsched: nested executions")
	}
	defer cur.Store(nil)
	func() {
		defer func() {
			if r := recover(); r != nil {
				x.Panics = append(x.Panics, PanicInfo{Thread: "setup", Msg: fmt.Sprint(r), Stack: trimStack(string(debug.Stack()))})
			}
		}()
		setup(x)
	}()
	x.run()
	if len(x.Points) < len(prefix) && x.Diverged == "" && !x.prunedHere {
		x.Diverged = fmt.Sprintf("execution ended after %d choice points but the prefix has %d", len(x.Points), len(prefix))
	}
	return x
}

// Explore enumerates every execution of setup's threads whose deviation cost
// is within opt.Bound (depth-first over the choice tree, default answer first)
// and calls check on each complete execution.
func Explore(opt Options, setup func(x *Exec), check func(x *Exec)) Result {
	if opt.NShards <= 0 {
		opt.NShards = 1
	}
	e := &explorer{opt: opt, setup: setup, check: check, states: map[string]int{}}
	if e.opt.ShardDepth <= 0 {
		e.opt.ShardDepth = 2
	}
	e.explore(nil, 0)
	e.res.Pruned = e.pruned
	e.res.States = int64(len(e.states))
	return e.res
}

func (e *explorer) explore(prefix []int, depth int) {
	if e.stop {
		return
	}
	if e.opt.NShards > 1 && depth == e.opt.ShardDepth {
		k := e.sub
		e.sub++
		if int(k%int64(e.opt.NShards)) != e.opt.Shard {
			return
		}
	}
	if e.opt.MaxExec > 0 && e.res.Executions >= e.opt.MaxExec {
		e.res.Capped, e.res.CapReason, e.stop = true, "execution cap", true
		return
	}
	if !e.opt.Deadline.IsZero() && e.res.Executions%64 == 0 && time.Now().After(e.opt.Deadline) {
		e.res.Capped, e.res.CapReason, e.stop = true, "wall-clock budget", true
		return
	}
	x := runOne(e, prefix, e.opt.Horizon, e.setup)
	if x.Diverged != "" {
		e.res.EngineError = "replay divergence: " + x.Diverged
		e.stop = true
		return
	}
	e.res.Executions++
	e.res.ChoicePts += int64(len(x.Points))
	if len(x.Points) > e.res.MaxPoints {
		e.res.MaxPoints = len(x.Points)
	}
	if x.prunedHere {
		// the continuation from this state was explored before; nothing to check
	} else {
		if x.Deadlock {
			e.res.Deadlocks++
		}
		if x.HorizonHit {
			e.res.HorizonHits++
		}
		// executions above the shard level are run by every shard (to find
		// their children) but checked and counted by shard 0 only
		if e.opt.NShards <= 1 || depth >= e.opt.ShardDepth || e.opt.Shard == 0 {
			e.check(x)
		} else {
			e.res.Executions--
		}
	}
	cost := 0
	for i := 0; i < len(x.Points); i++ {
		p := x.Points[i]
		if i >= len(prefix) {
			for alt := 1; alt < p.N; alt++ {
				c := cost + pointCost(p, alt)
				if e.opt.Bound >= 0 && c > e.opt.Bound {
					continue
				}
				np := make([]int, i+1)
				for j := 0; j < i; j++ {
					np[j] = x.Points[j].Chosen
				}
				np[i] = alt
				e.explore(np, depth+1)
				if e.stop {
					return
				}
			}
		}
		cost += pointCost(p, p.Chosen)
	}
}
