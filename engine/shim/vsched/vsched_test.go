//go:build verif && go1.18

package vsched

import "testing"

// Self-tests of the explorer on toy programs with known schedule counts.
// Run: cd /verif/engine && go test -tags verif ./shim/vsched/

func countSchedules(t *testing.T, bound int, threads, points int, key func(x *Exec) string) (int64, Result) {
	var n int64
	opt := Options{Bound: bound}
	if key != nil {
		opt.StateKey = key
	}
	res := Explore(opt, func(x *Exec) {
		for i := 0; i < threads; i++ {
			x.Go("t", func() {
				for p := 0; p < points; p++ {
					Point("p")
				}
			})
		}
	}, func(x *Exec) { n++ })
	return n, res
}

func TestScheduleCounts(t *testing.T) {
	// 2 threads, each start + 2 points = 3 steps: C(6,3) = 20 interleavings
	if n, _ := countSchedules(t, -1, 2, 2, nil); n != 20 {
		t.Fatalf("unbounded 2x(1+2) steps: %d schedules, want 20", n)
	}
	// 3 threads x 2 steps: 6!/(2!2!2!) = 90
	if n, _ := countSchedules(t, -1, 3, 1, nil); n != 90 {
		t.Fatalf("unbounded 3x(1+1) steps: %d schedules, want 90", n)
	}
	// bound 0: only non-preemptive schedules = orders in which whole threads run = 2
	if n, _ := countSchedules(t, 0, 2, 2, nil); n != 2 {
		t.Fatalf("bound 0: %d schedules, want 2", n)
	}
	// bounds are monotone and reach the unbounded count
	prev := int64(0)
	for b := 0; b <= 6; b++ {
		n, _ := countSchedules(t, b, 2, 2, nil)
		if n < prev {
			t.Fatalf("bound %d explores fewer schedules (%d) than bound %d (%d)", b, n, b-1, prev)
		}
		prev = n
	}
	if prev != 20 {
		t.Fatalf("bound 6 explores %d schedules, want all 20", prev)
	}
}

func TestLostUpdateFoundWithOnePreemption(t *testing.T) {
	find := func(bound int, locked bool) bool {
		found := false
		Explore(Options{Bound: bound}, func(x *Exec) {
			counter := 0
			held := false
			x.Data = &counter
			for i := 0; i < 2; i++ {
				x.Go("inc", func() {
					if locked {
						Await("lock", func() bool { return !held })
						held = true
					}
					Point("read")
					v := counter
					Point("write")
					counter = v + 1
					if locked {
						Point("unlock")
						held = false
					}
				})
			}
		}, func(x *Exec) {
			if *(x.Data.(*int)) != 2 {
				found = true
			}
		})
		return found
	}
	if find(0, false) {
		t.Fatal("lost update reported without any preemption")
	}
	if !find(1, false) {
		t.Fatal("lost update not found with one preemption")
	}
	if find(-1, true) {
		t.Fatal("lost update reported although the increments hold a lock")
	}
}

func TestDeadlockDetected(t *testing.T) {
	deadlocks := int64(0)
	res := Explore(Options{Bound: -1}, func(x *Exec) {
		a, b := false, false
		x.Go("ab", func() {
			Await("lock a", func() bool { return !a })
			a = true
			Await("lock b", func() bool { return !b })
			b = true
			b, a = false, false
		})
		x.Go("ba", func() {
			Await("lock b", func() bool { return !b })
			b = true
			Await("lock a", func() bool { return !a })
			a = true
			a, b = false, false
		})
	}, func(x *Exec) {
		if x.Deadlock {
			deadlocks++
		}
	})
	if deadlocks == 0 || res.Deadlocks != deadlocks {
		t.Fatalf("lock-order inversion: %d deadlocked schedules seen by the check, %d by the explorer", deadlocks, res.Deadlocks)
	}
}

func TestStateKeyPruningKeepsOutcomes(t *testing.T) {
	outcomes := func(prune bool) (map[int]bool, int64) {
		seen := map[int]bool{}
		opt := Options{Bound: -1}
		if prune {
			opt.StateKey = func(x *Exec) string { return string(rune('0' + *(x.Data.(*int)))) }
		}
		res := Explore(opt, func(x *Exec) {
			v := 0
			x.Data = &v
			for i := 0; i < 3; i++ {
				i := i
				x.Go("w", func() {
					Point("a")
					*(x.Data.(*int)) |= 1 << i
					Point("b")
				})
			}
		}, func(x *Exec) { seen[*(x.Data.(*int))] = true })
		return seen, res.Executions
	}
	full, nf := outcomes(false)
	pruned, np := outcomes(true)
	if len(full) != len(pruned) {
		t.Fatalf("pruning changed the set of outcomes: %v vs %v", full, pruned)
	}
	if np >= nf {
		t.Fatalf("pruning did not reduce the executions: %d vs %d", np, nf)
	}
}

func TestReplayIsDeterministic(t *testing.T) {
	var first []string
	setup := func(x *Exec) {
		for i := 0; i < 2; i++ {
			x.Go([]string{"a", "b"}[i], func() { Point("p"); Point("q") })
		}
	}
	x := RunOne([]int{1, 0, 1}, 0, setup)
	first = append(first, x.Trace...)
	for i := 0; i < 3; i++ {
		y := RunOne([]int{1, 0, 1}, 0, setup)
		if len(y.Trace) != len(first) {
			t.Fatal("replay diverged in length")
		}
		for j := range first {
			if y.Trace[j] != first[j] {
				t.Fatalf("replay diverged at step %d: %s vs %s", j, y.Trace[j], first[j])
			}
		}
	}
}
