//go:build verif && go1.18

// Package vtime is the clock seam (rule R2): instrumented packages call
// vtime.Now/Since/Sleep instead of the time package. When a harness enables the
// virtual clock, Now returns the harness-owned instant and Sleep parks the
// caller until the harness releases it; otherwise everything falls through to
// the real clock.
package vtime

import (
	"sync"
	"time"

	"github.com/ossrs/go-oryx-lib/verifshim/vsched"
)

var (
	mu       sync.Mutex
	cond     = sync.NewCond(&mu)
	virtual  bool
	now      time.Time
	parked   int           // goroutines currently parked in Sleep
	arrivals int           // total Sleep entries
	gen      int           // release generation
	slept    []time.Duration // durations requested by Sleep calls (virtual mode)
)

// Enable switches to the virtual clock at t0.
func Enable(t0 time.Time) {
	mu.Lock()
	virtual, now, parked, arrivals, gen, slept = true, t0, 0, 0, 0, nil
	mu.Unlock()
}

func Disable() {
	mu.Lock()
	virtual = false
	gen++
	cond.Broadcast()
	mu.Unlock()
}

func Now() time.Time {
	mu.Lock()
	defer mu.Unlock()
	if virtual {
		return now
	}
	return time.Now()
}

func Since(t time.Time) time.Duration { return Now().Sub(t) }

// Set moves the virtual clock.
func Set(t time.Time) {
	mu.Lock()
	now = t
	mu.Unlock()
}

func Advance(d time.Duration) {
	mu.Lock()
	now = now.Add(d)
	mu.Unlock()
}

// Sleep parks the caller until the next ReleaseAll (virtual) or sleeps (real).
func Sleep(d time.Duration) {
	mu.Lock()
	if !virtual {
		mu.Unlock()
		time.Sleep(d)
		return
	}
	if len(slept) < 4096 { // bounded record: long histories replay from their first operation
		slept = append(slept, d)
	}
	my := gen
	parked++
	arrivals++
	cond.Broadcast()
	for gen == my && virtual {
		cond.Wait()
	}
	parked--
	mu.Unlock()
}

// WaitParked blocks until n goroutines are parked in Sleep, or the real-time
// horizon passes (returns false).
func WaitParked(n int, horizon time.Duration) bool {
	deadline := time.Now().Add(horizon)
	mu.Lock()
	defer mu.Unlock()
	for parked < n {
		if time.Now().After(deadline) {
			return false
		}
		// cond has no timed wait: poll with a short real sleep
		mu.Unlock()
		time.Sleep(20 * time.Microsecond)
		mu.Lock()
	}
	return true
}

// WaitArrivals blocks until the total number of Sleep entries reaches n, or
// the real-time horizon passes (returns false; only a stuck sampler gets there).
func WaitArrivals(n int, horizon time.Duration) bool {
	mu.Lock()
	defer mu.Unlock()
	if arrivals >= n {
		return true
	}
	timedOut := false
	t := time.AfterFunc(horizon, func() {
		mu.Lock()
		timedOut = true
		cond.Broadcast()
		mu.Unlock()
	})
	defer t.Stop()
	for arrivals < n && !timedOut {
		cond.Wait()
	}
	return arrivals >= n
}

func Arrivals() int {
	mu.Lock()
	defer mu.Unlock()
	return arrivals
}

// ReleaseAll wakes every parked sleeper.
func ReleaseAll() {
	mu.Lock()
	gen++
	cond.Broadcast()
	mu.Unlock()
}

// Slept returns the durations passed to Sleep so far (the first 4096 since Enable).
func Slept() []time.Duration {
	mu.Lock()
	defer mu.Unlock()
	return append([]time.Duration{}, slept...)
}

// ---------------------------------------------------------------- timers (rule R2b)

var (
	timerMu   sync.Mutex
	vtimers   = map[*time.Timer]*vtimer{}
	// TimeoutsEnabled lets a harness switch the timeout choice on per scenario.
	TimeoutsEnabled bool
)

type vtimer struct {
	ch     chan time.Time
	finite bool
	fired  bool
}

// NewTimer returns a real timer when no scheduler execution is active and the clock is real. Under the scheduler it returns a
// timer that never fires by itself (its channel is owned by this package): MaybeTimeout fires it.
func NewTimer(d time.Duration) *time.Timer {
	if !vsched.Active() {
		mu.Lock()
		frozen := virtual
		mu.Unlock()
		if frozen {
			// virtual clock without a scheduler (sequential harness): time stands still unless the harness advances
			// it, so a timer never fires by itself - a worker descheduled for longer than the duration loses nothing
			return time.NewTimer(24 * 365 * time.Hour)
		}
		return time.NewTimer(d)
	}
	t := time.NewTimer(24 * 365 * time.Hour)
	ch := make(chan time.Time, 1)
	t.C = ch
	timerMu.Lock()
	if len(vtimers) > 4096 {
		vtimers = map[*time.Timer]*vtimer{}
	}
	vtimers[t] = &vtimer{ch: ch, finite: d < 500*time.Hour}
	timerMu.Unlock()
	return t
}

// MaybeTimeout is called right before a select that waits for a lock channel or the timer. If the
// lock is unavailable now, the timer has a finite duration and the scheduler chooses so (a costed
// deviation), the timer fires and true is returned: the caller must run the select at once.
func MaybeTimeout(t *time.Timer, lockAvailable func() bool) bool {
	if !vsched.Active() || !TimeoutsEnabled {
		return false
	}
	timerMu.Lock()
	vt := vtimers[t]
	timerMu.Unlock()
	if vt == nil || !vt.finite || vt.fired || lockAvailable() {
		return false
	}
	if vsched.Choose(2, false, "lock-wait-times-out") == 1 {
		vt.fired = true
		vt.ch <- time.Time{}
		return true
	}
	return false
}
