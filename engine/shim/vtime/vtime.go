//go:build verif && go1.18

// Package vtime is the clock seam (rule R2): instrumented packages call
// vtime.Now/Since/Sleep instead of the time package. When a harness enables the
// virtual clock, Now returns the harness-owned instant and Sleep parks the
// caller until the harness releases it; otherwise everything falls through to
// the real clock.
package vtime

import (
	"sync"
	"time"
)

var (
	mu       sync.Mutex
	cond     = sync.NewCond(&mu)
	virtual  bool
	now      time.Time
	parked   int           // goroutines currently parked in Sleep
	arrivals int           // total Sleep entries
	gen      int           // release generation
	slept    []time.Duration // durations requested by Sleep calls (virtual mode)
)

// Enable switches to the virtual clock at t0.
func Enable(t0 time.Time) {
	mu.Lock()
	virtual, now, parked, arrivals, gen, slept = true, t0, 0, 0, 0, nil
	mu.Unlock()
}

func Disable() {
	mu.Lock()
	virtual = false
	gen++
	cond.Broadcast()
	mu.Unlock()
}

func Now() time.Time {
	mu.Lock()
	defer mu.Unlock()
	if virtual {
		return now
	}
	return time.Now()
}

func Since(t time.Time) time.Duration { return Now().Sub(t) }

// Set moves the virtual clock.
func Set(t time.Time) {
	mu.Lock()
	now = t
	mu.Unlock()
}

func Advance(d time.Duration) {
	mu.Lock()
	now = now.Add(d)
	mu.Unlock()
}

// Sleep parks the caller until the next ReleaseAll (virtual) or sleeps (real).
func Sleep(d time.Duration) {
	mu.Lock()
	if !virtual {
		mu.Unlock()
		time.Sleep(d)
		return
	}
	slept = append(slept, d)
	my := gen
	parked++
	arrivals++
	cond.Broadcast()
	for gen == my && virtual {
		cond.Wait()
	}
	parked--
	mu.Unlock()
}

// WaitParked blocks until n goroutines are parked in Sleep, or the real-time
// horizon passes (returns false).
func WaitParked(n int, horizon time.Duration) bool {
	deadline := time.Now().Add(horizon)
	mu.Lock()
	defer mu.Unlock()
	for parked < n {
		if time.Now().After(deadline) {
			return false
		}
		// cond has no timed wait: poll with a short real sleep
		mu.Unlock()
		time.Sleep(20 * time.Microsecond)
		mu.Lock()
	}
	return true
}

// WaitArrivals blocks until the total number of Sleep entries reaches n, or
// the real-time horizon passes (returns false; only a stuck sampler gets there).
func WaitArrivals(n int, horizon time.Duration) bool {
	mu.Lock()
	defer mu.Unlock()
	if arrivals >= n {
		return true
	}
	timedOut := false
	t := time.AfterFunc(horizon, func() {
		mu.Lock()
		timedOut = true
		cond.Broadcast()
		mu.Unlock()
	})
	defer t.Stop()
	for arrivals < n && !timedOut {
		cond.Wait()
	}
	return arrivals >= n
}

func Arrivals() int {
	mu.Lock()
	defer mu.Unlock()
	return arrivals
}

// ReleaseAll wakes every parked sleeper.
func ReleaseAll() {
	mu.Lock()
	gen++
	cond.Broadcast()
	mu.Unlock()
}

// Slept returns the durations passed to Sleep so far.
func Slept() []time.Duration {
	mu.Lock()
	defer mu.Unlock()
	return append([]time.Duration{}, slept...)
}
