//go:build verif && go1.18

// Package vstep counts instrumented steps (rule R6): a deterministic cost
// measure that replaces wall-clock time in the C07 oracle.
package vstep

import "sync/atomic"

var n int64

// Limit, when > 0, makes Tick panic with Exceeded once the count passes it
// (step horizon: a stalled decoder is unwound instead of hanging the worker).
var Limit int64

type Exceeded struct{ N int64 }

func Tick() {
	if v := atomic.AddInt64(&n, 1); Limit > 0 && v > Limit {
		panic(Exceeded{v})
	}
}

func TickN(k int) {
	if k < 1 {
		k = 1
	}
	if v := atomic.AddInt64(&n, int64(k)); Limit > 0 && v > Limit {
		panic(Exceeded{v})
	}
}

func Reset()       { atomic.StoreInt64(&n, 0); atomic.StoreInt64(&an, 0) }
func Count() int64 { return atomic.LoadInt64(&n) }

// Declared-size allocations (make(T, n), x.Grow(n)) are accounted before they happen: with AllocLimit > 0 a call
// that would take the running total of requested elements past the limit panics with ExceededAlloc instead of
// allocating, so a decoder that sizes a buffer from an untrusted field is reported without the worker running
// out of memory.
var an int64
var AllocLimit int64

type ExceededAlloc struct{ N, Request int64 }

func Alloc(k int64) {
	if k < 0 {
		return // make itself panics
	}
	if v := atomic.AddInt64(&an, k); AllocLimit > 0 && v > AllocLimit {
		panic(ExceededAlloc{v, k})
	}
}

func Allocated() int64 { return atomic.LoadInt64(&an) }
