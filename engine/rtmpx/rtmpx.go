// Package rtmpx holds the in-memory transport and session helpers shared by the
// RTMP checks (C01, C03, C08): a unidirectional Link with controllable read
// segmentation, cut points and injected faults, and the simple handshake run
// through the library's own Handshake methods.
package rtmpx

import (
	"bytes"
	"errors"
	"fmt"
	"io"
	"math/rand"

	"github.com/ossrs/go-oryx-lib/rtmp"

	"verif/dump"
)

type ReadMode int

const (
	Whole   ReadMode = iota // a Read returns everything available (up to len(p))
	OneByte                 // a Read returns one byte
	CutAt                   // Reads never cross absolute offset Cut (a 2-segmentation of the stream)
)

// ErrInjected is the sentinel transport failure (distinct identity).
var ErrInjected = errors.New("verif: injected transport failure")

// Link is one direction of a connection.
type Link struct {
	Data []byte // every byte written so far
	RPos int    // absolute read position
	Mode ReadMode
	Cut  int
	Cut2 int // optional second segment boundary (3-segmentation), 0 = none

	EOFAt int // >=0: the stream ends at this absolute offset with io.EOF even if more was written

	ReadCalls, WriteCalls int
	FailRead              int // index of the Read call that fails (-1 = none)
	FailWrite             int // index of the Write call that fails (-1 = none)
	Partial               int // bytes transferred by the failing call alongside the error
	WriteSizes            []int
	ReadSizes             []int
	FaultRPos             int  // read position right after the bytes the failing Read call delivered (-1: no read fault happened)
	OneShot               bool // the injected fault happens once and the transport works again afterwards (default: a failed transport stays failed)
}

func NewLink() *Link { return &Link{EOFAt: -1, FailRead: -1, FailWrite: -1, FaultRPos: -1} }

func (l *Link) Write(p []byte) (int, error) {
	i := l.WriteCalls
	l.WriteCalls++
	if l.FailWrite >= 0 && i > l.FailWrite && !l.OneShot {
		return 0, ErrInjected // a failed transport stays failed
	}
	if i == l.FailWrite {
		n := l.Partial
		if n > len(p) {
			n = len(p)
		}
		l.Data = append(l.Data, p[:n]...)
		l.WriteSizes = append(l.WriteSizes, n)
		return n, ErrInjected
	}
	l.Data = append(l.Data, p...)
	l.WriteSizes = append(l.WriteSizes, len(p))
	return len(p), nil
}

func (l *Link) Read(p []byte) (int, error) {
	i := l.ReadCalls
	l.ReadCalls++
	end := len(l.Data)
	if l.EOFAt >= 0 && l.EOFAt < end {
		end = l.EOFAt
	}
	avail := end - l.RPos
	n := len(p)
	if n > avail {
		n = avail
	}
	if l.FailRead >= 0 && i > l.FailRead && !l.OneShot {
		return 0, ErrInjected // a failed transport stays failed
	}
	if i == l.FailRead {
		if n > l.Partial {
			n = l.Partial
		}
		copy(p, l.Data[l.RPos:l.RPos+n])
		l.RPos += n
		l.FaultRPos = l.RPos
		l.ReadSizes = append(l.ReadSizes, n)
		return n, ErrInjected
	}
	if avail <= 0 || len(p) == 0 {
		if len(p) == 0 {
			return 0, nil
		}
		return 0, io.EOF
	}
	switch l.Mode {
	case OneByte:
		n = 1
	case CutAt:
		if l.RPos < l.Cut && l.RPos+n > l.Cut {
			n = l.Cut - l.RPos
		} else if l.Cut2 > 0 && l.RPos < l.Cut2 && l.RPos+n > l.Cut2 {
			n = l.Cut2 - l.RPos
		}
	}
	copy(p, l.Data[l.RPos:l.RPos+n])
	l.RPos += n
	l.ReadSizes = append(l.ReadSizes, n)
	return n, nil
}

// End is one endpoint's io.ReadWriter: reads from In, writes to Out.
type End struct {
	In  *Link
	Out *Link
}

func (e End) Read(p []byte) (int, error)  { return e.In.Read(p) }
func (e End) Write(p []byte) (int, error) { return e.Out.Write(p) }

// Pair is a duplex connection: A writes AB, B writes BA.
type Pair struct {
	AB, BA *Link
	A, B   End
}

func NewPair() *Pair {
	p := &Pair{AB: NewLink(), BA: NewLink()}
	p.A = End{In: p.BA, Out: p.AB}
	p.B = End{In: p.AB, Out: p.BA}
	return p
}

// Handshake runs the simple handshake (client = A, server = B) through the
// library's Handshake methods and checks the echoed bytes.
func Handshake(p *Pair, seed int64) error {
	hc := rtmp.NewHandshake(rand.New(rand.NewSource(seed)))
	hs := rtmp.NewHandshake(rand.New(rand.NewSource(seed + 1)))
	if err := hc.WriteC0S0(p.A); err != nil {
		return fmt.Errorf("client write c0: %v", err)
	}
	if err := hc.WriteC1S1(p.A); err != nil {
		return fmt.Errorf("client write c1: %v", err)
	}
	c0, err := hs.ReadC0S0(p.B)
	if err != nil {
		return fmt.Errorf("server read c0: %v", err)
	}
	c1, err := hs.ReadC1S1(p.B)
	if err != nil {
		return fmt.Errorf("server read c1: %v", err)
	}
	if len(c0) != 1 || c0[0] != 3 || len(c1) != 1536 {
		return fmt.Errorf("server got c0=%x len(c1)=%d", c0, len(c1))
	}
	if !bytes.Equal(c1, p.AB.Data[1:1537]) {
		return fmt.Errorf("server's c1 differs from the bytes the client wrote")
	}
	if err := hs.WriteC0S0(p.B); err != nil {
		return fmt.Errorf("server write s0: %v", err)
	}
	if err := hs.WriteC1S1(p.B); err != nil {
		return fmt.Errorf("server write s1: %v", err)
	}
	if err := hs.WriteC2S2(p.B, c1); err != nil {
		return fmt.Errorf("server write s2: %v", err)
	}
	s0, err := hc.ReadC0S0(p.A)
	if err != nil {
		return fmt.Errorf("client read s0: %v", err)
	}
	s1, err := hc.ReadC1S1(p.A)
	if err != nil {
		return fmt.Errorf("client read s1: %v", err)
	}
	s2, err := hc.ReadC2S2(p.A)
	if err != nil {
		return fmt.Errorf("client read s2: %v", err)
	}
	if len(s0) != 1 || s0[0] != 3 || len(s1) != 1536 || !bytes.Equal(s2, c1) {
		return fmt.Errorf("client got s0=%x len(s1)=%d s2==c1:%v", s0, len(s1), bytes.Equal(s2, c1))
	}
	if err := hc.WriteC2S2(p.A, s1); err != nil {
		return fmt.Errorf("client write c2: %v", err)
	}
	c2, err := hs.ReadC2S2(p.B)
	if err != nil {
		return fmt.Errorf("server read c2: %v", err)
	}
	if !bytes.Equal(c2, s1) {
		return fmt.Errorf("server's c2 differs from s1")
	}
	if p.AB.RPos != len(p.AB.Data) || p.BA.RPos != len(p.BA.Data) {
		return fmt.Errorf("handshake left unread bytes: AB %d/%d BA %d/%d", p.AB.RPos, len(p.AB.Data), p.BA.RPos, len(p.BA.Data))
	}
	return nil
}

// StreamID reads a received message's stream id: by reflection on the private
// header field when it exists under its current name, else by re-serialising
// the message through a scratch Protocol and parsing the type-0 chunk header.
func StreamID(m *rtmp.Message) (uint32, bool) {
	s := dump.Field(m, "messageHeader.streamID", dump.Options{})
	if s != "<absent>" {
		var v uint32
		if _, err := fmt.Sscanf(s, "%d", &v); err == nil {
			return v, true
		}
	}
	var b bytes.Buffer
	sp := rtmp.NewProtocol(struct {
		io.Reader
		io.Writer
	}{bytes.NewReader(nil), &b})
	if err := sp.WriteMessage(m); err != nil || b.Len() < 12 {
		return 0, false
	}
	h := b.Bytes()
	return uint32(h[8]) | uint32(h[9])<<8 | uint32(h[10])<<16 | uint32(h[11])<<24, true
}

// ProtoState is the canonical dump of a Protocol's private state (E2 state key).
func ProtoState(p *rtmp.Protocol) string {
	return dump.String(p, dump.Options{SkipTypes: []string{"bufio.", "sync.", "vsync."}, MaxBytes: 16})
}
