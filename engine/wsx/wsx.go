// Package wsx holds the in-memory net.Conn used by the sequential WebSocket
// checks (C13, C14): preloaded inbound bytes with optional cut, logged outbound
// writes.
package wsx

import (
	"io"
	"net"
	"time"
)

type Conn struct {
	In       []byte // bytes the peer sent
	RPos     int
	OneByte  bool
	Out      []byte
	Writes   []int
	Closed   bool
	Peer     *Conn // when set, writes are appended to Peer.In (duplex pair)
	ReadErr  error // returned at end of In instead of io.EOF when set
}

func (c *Conn) Read(p []byte) (int, error) {
	if c.RPos >= len(c.In) {
		if c.ReadErr != nil {
			return 0, c.ReadErr
		}
		return 0, io.EOF
	}
	n := len(p)
	if c.OneByte && n > 1 {
		n = 1
	}
	if n > len(c.In)-c.RPos {
		n = len(c.In) - c.RPos
	}
	copy(p, c.In[c.RPos:c.RPos+n])
	c.RPos += n
	return n, nil
}

func (c *Conn) Write(p []byte) (int, error) {
	if c.Closed {
		return 0, io.ErrClosedPipe
	}
	c.Out = append(c.Out, p...)
	c.Writes = append(c.Writes, len(p))
	if c.Peer != nil {
		c.Peer.In = append(c.Peer.In, p...)
	}
	return len(p), nil
}

func (c *Conn) Close() error { c.Closed = true; return nil }

type addr struct{}

func (addr) Network() string { return "mem" }
func (addr) String() string  { return "mem" }

func (c *Conn) LocalAddr() net.Addr                { return addr{} }
func (c *Conn) RemoteAddr() net.Addr               { return addr{} }
func (c *Conn) SetDeadline(t time.Time) error      { return nil }
func (c *Conn) SetReadDeadline(t time.Time) error  { return nil }
func (c *Conn) SetWriteDeadline(t time.Time) error { return nil }

// Pair returns two connected in-memory conns.
func Pair() (*Conn, *Conn) {
	a, b := &Conn{}, &Conn{}
	a.Peer, b.Peer = b, a
	return a, b
}
