//go:build verif && go1.18

package websocket

import "net"

// VerifNewConn builds a Conn without the opening handshake, exactly as
// Upgrader.Upgrade / Dialer.Dial do after it (newConn + negotiated
// compression hooks).
func VerifNewConn(conn net.Conn, isServer bool, readBufferSize, writeBufferSize int, compression bool) *Conn {
	c := newConn(conn, isServer, readBufferSize, writeBufferSize)
	if compression {
		c.newCompressionWriter = compressNoContextTakeover
		c.newDecompressionReader = decompressNoContextTakeover
	}
	return c
}

// VerifWriteTokenFree reports whether the write token (the one-element channel that serialises frame writes) is in its
// channel, i.e. no write is in progress and none was abandoned without returning it.
func VerifWriteTokenFree(c *Conn) bool { return len(c.mu) == 1 }
