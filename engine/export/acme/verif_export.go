//go:build verif && go1.18

// In-package accessors for the C16 harness, injected by the driver's overlay as
// /repo/https/acme/verif_export.go (never written into /repo). Thin wrappers,
// no logic: the unexported request signer and key-authorization builder are
// reached without any network object (the nonce pool is pre-filled, so
// jws.Nonce never calls httpHead).
package acme

import (
	"crypto"

	"github.com/ossrs/go-oryx-lib/https/jose"
)

// VerifSignContent runs (*jws).signContent with the given account key and a
// pre-filled nonce pool; it returns the signed object and the nonces left.
func VerifSignContent(key crypto.PrivateKey, nonces []string, content []byte) (*jose.JsonWebSignature, []string, error) {
	j := &jws{privKey: key, nonces: append([]string(nil), nonces...)}
	s, err := j.signContent(content)
	return s, j.nonces, err
}

// VerifKeyAuthorization is getKeyAuthorization.
func VerifKeyAuthorization(token string, key interface{}) (string, error) {
	return getKeyAuthorization(token, key)
}

// VerifKeyAsJWK is keyAsJWK.
func VerifKeyAsJWK(key interface{}) *jose.JsonWebKey { return keyAsJWK(key) }
