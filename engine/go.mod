module verif

go 1.23

require github.com/ossrs/go-oryx-lib v0.0.0

replace github.com/ossrs/go-oryx-lib => /repo
