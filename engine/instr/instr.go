// Package instr generates, from /repo's current working tree, the overlay used
// by every harness build: instrumented copies of selected library files (rules
// R1..R6 of DESIGN.md), injected in-package export files and the virtual shim
// packages. Rewrites are textual insertions at AST positions, so line numbers of
// the library code are preserved. /repo is never written.
package instr

import (
	"encoding/json"
	"fmt"
	"go/ast"
	"go/parser"
	"go/token"
	"os"
	"path/filepath"
	"sort"
	"strings"
)

const shimBase = "github.com/ossrs/go-oryx-lib/verifshim/"

type PkgRules struct {
	Pkg      string   // package directory relative to the repo root
	SyncSwap bool     // R1
	Time     bool     // R2: time.Now/Since/Sleep -> vtime
	Timers   bool     // R2b: time.NewTimer -> vtime.NewTimer; selects on a lock channel and a timer may time out by scheduler choice
	ChanLock []string // R3: selector/ident names of lock channels
	Globals  []string // R4: package-level variables whose accesses become points
	GoStmt   bool     // R5
	Ticks    bool     // R6
	Atomics  bool     // R7: a scheduling point in front of every statement that performs a sync/atomic operation
	Export   string   // file under engine/export injected as verif_export.go
}

type edit struct {
	off  int
	del  int
	text string
	ord  int
}

type fileInstr struct {
	fset  *token.FileSet
	src   []byte
	edits []edit
	sites map[string]int
	need  map[string]bool // shim imports needed
	r     PkgRules
	tmpN  int
}

func (f *fileInstr) off(p token.Pos) int { return f.fset.Position(p).Offset }
func (f *fileInstr) text(n ast.Node) string {
	return string(f.src[f.off(n.Pos()):f.off(n.End())])
}
func (f *fileInstr) insert(p token.Pos, s string) {
	f.edits = append(f.edits, edit{off: f.off(p), text: s, ord: len(f.edits)})
}
func (f *fileInstr) replace(from, to token.Pos, s string) {
	f.edits = append(f.edits, edit{off: f.off(from), del: f.off(to) - f.off(from), text: s, ord: len(f.edits)})
}

func inList(names []string, s string) bool {
	for _, n := range names {
		if n == s {
			return true
		}
	}
	return false
}

func (f *fileInstr) isLockChan(e ast.Expr) bool {
	switch v := e.(type) {
	case *ast.SelectorExpr:
		return inList(f.r.ChanLock, v.Sel.Name)
	case *ast.Ident:
		return inList(f.r.ChanLock, v.Name)
	case *ast.ParenExpr:
		return f.isLockChan(v.X)
	}
	return false
}

func recvChan(e ast.Expr) ast.Expr {
	if p, ok := e.(*ast.ParenExpr); ok {
		return recvChan(p.X)
	}
	if u, ok := e.(*ast.UnaryExpr); ok && u.Op == token.ARROW {
		return u.X
	}
	return nil
}

// refsGlobal reports whether n mentions one of the listed globals, without
// descending into nested blocks or function literals.
func (f *fileInstr) refsGlobal(n ast.Node) bool {
	found := false
	ast.Inspect(n, func(c ast.Node) bool {
		if found {
			return false
		}
		switch v := c.(type) {
		case *ast.BlockStmt:
			return c == n
		case *ast.FuncLit:
			return false
		case *ast.SelectorExpr:
			// x.gCid is a field, not the global; still inspect x
			if f.refsGlobal(v.X) {
				found = true
			}
			return false
		case *ast.Ident:
			if inList(f.r.Globals, v.Name) {
				found = true
			}
		}
		return true
	})
	return found
}

func (f *fileInstr) stmtList(list []ast.Stmt) {
	for _, s := range list {
		f.stmt(s)
	}
}

func (f *fileInstr) stmt(s ast.Stmt) {
	// R3
	if len(f.r.ChanLock) > 0 {
		switch v := s.(type) {
		case *ast.SendStmt:
			if f.isLockChan(v.Chan) {
				x := f.text(v.Chan)
				f.insert(s.Pos(), fmt.Sprintf("vsched.Await(\"chan.send\", func() bool { return len(%s) < cap(%s) }); ", x, x))
				f.sites["R3.send"]++
				f.need["vsched"] = true
			}
		case *ast.ExprStmt:
			if ch := recvChan(v.X); ch != nil && f.isLockChan(ch) {
				x := f.text(ch)
				f.insert(s.Pos(), fmt.Sprintf("vsched.Await(\"chan.recv\", func() bool { return len(%s) > 0 }); ", x))
				f.sites["R3.recv"]++
				f.need["vsched"] = true
			}
		case *ast.AssignStmt:
			if len(v.Rhs) == 1 {
				if ch := recvChan(v.Rhs[0]); ch != nil && f.isLockChan(ch) {
					x := f.text(ch)
					f.insert(s.Pos(), fmt.Sprintf("vsched.Await(\"chan.recv\", func() bool { return len(%s) > 0 }); ", x))
					f.sites["R3.recv"]++
					f.need["vsched"] = true
				}
			}
		case *ast.SelectStmt:
			var conds []string
			hasDefault := false
			timerExpr := ""
			for _, cc := range v.Body.List {
				c := cc.(*ast.CommClause)
				if c.Comm == nil {
					hasDefault = true
					continue
				}
				switch cm := c.Comm.(type) {
				case *ast.ExprStmt:
					if ch := recvChan(cm.X); ch != nil && f.isLockChan(ch) {
						conds = append(conds, fmt.Sprintf("len(%s) > 0", f.text(ch)))
					} else if ch != nil && f.r.Timers {
						// case <-T.C: a timer channel
						if se, ok := ch.(*ast.SelectorExpr); ok && se.Sel.Name == "C" {
							timerExpr = f.text(se.X)
						}
					}
				case *ast.AssignStmt:
					if len(cm.Rhs) == 1 {
						if ch := recvChan(cm.Rhs[0]); ch != nil && f.isLockChan(ch) {
							conds = append(conds, fmt.Sprintf("len(%s) > 0", f.text(ch)))
						}
					}
				case *ast.SendStmt:
					if f.isLockChan(cm.Chan) {
						x := f.text(cm.Chan)
						conds = append(conds, fmt.Sprintf("len(%s) < cap(%s)", x, x))
					}
				}
			}
			if len(conds) > 0 {
				if hasDefault {
					f.insert(s.Pos(), "vsched.Point(\"chan.try\"); ")
				} else if timerExpr != "" {
					// the wait may time out (scheduler choice, only while the lock is unavailable); if it does, the timer is
					// fired and the select runs at once, without a scheduling point in between, so only the timer case is ready
					f.insert(s.Pos(), fmt.Sprintf("if !vtime.MaybeTimeout(%s, func() bool { return %s }) { vsched.Await(\"chan.select\", func() bool { return %s }) }; ", timerExpr, strings.Join(conds, " || "), strings.Join(conds, " || ")))
					f.need["vtime"] = true
					f.sites["R2b.timeout-select"]++
				} else {
					f.insert(s.Pos(), fmt.Sprintf("vsched.Await(\"chan.select\", func() bool { return %s }); ", strings.Join(conds, " || ")))
				}
				f.sites["R3.select"]++
				f.need["vsched"] = true
			}
		}
	}
	// R4
	if len(f.r.Globals) > 0 {
		handled := false
		switch v := s.(type) {
		case *ast.IncDecStmt:
			if id, ok := v.X.(*ast.Ident); ok && inList(f.r.Globals, id.Name) {
				op := "+"
				if v.Tok == token.DEC {
					op = "-"
				}
				f.tmpN++
				t := fmt.Sprintf("vtmp%d", f.tmpN)
				f.replace(s.Pos(), s.End(), fmt.Sprintf("{ vsched.Point(\"global.read\"); %s := %s; vsched.Point(\"global.write\"); %s = %s %s 1 }", t, id.Name, id.Name, t, op))
				f.sites["R4.rmw"]++
				f.need["vsched"] = true
				handled = true
			}
		case *ast.AssignStmt:
			if len(v.Lhs) == 1 && len(v.Rhs) == 1 && v.Tok != token.ASSIGN && v.Tok != token.DEFINE {
				if id, ok := v.Lhs[0].(*ast.Ident); ok && inList(f.r.Globals, id.Name) {
					op := strings.TrimSuffix(v.Tok.String(), "=")
					f.tmpN++
					t := fmt.Sprintf("vtmp%d", f.tmpN)
					f.replace(s.Pos(), s.End(), fmt.Sprintf("{ vsched.Point(\"global.read\"); %s := %s; vsched.Point(\"global.write\"); %s = %s %s (%s) }", t, id.Name, id.Name, t, op, f.text(v.Rhs[0])))
					f.sites["R4.rmw"]++
					f.need["vsched"] = true
					handled = true
				}
			}
		}
		if !handled {
			switch s.(type) {
			case *ast.BlockStmt, *ast.LabeledStmt:
			default:
				if f.refsGlobal(s) {
					f.insert(s.Pos(), "vsched.Point(\"global\"); ")
					f.sites["R4.access"]++
					f.need["vsched"] = true
				}
			}
		}
	}
	// R5
	if f.r.GoStmt {
		if g, ok := s.(*ast.GoStmt); ok {
			if fl, ok := g.Call.Fun.(*ast.FuncLit); ok && len(g.Call.Args) == 0 {
				line := f.fset.Position(g.Pos()).Line
				f.replace(g.Pos(), fl.Pos(), fmt.Sprintf("vsched.Go(\"go@%d\", ", line))
				f.replace(g.Call.Lparen, g.Call.Rparen+1, ")")
				f.sites["R5.go"]++
				f.need["vsched"] = true
			} else {
				f.sites["R5.skipped"]++
			}
		}
	}
	// R6b: weighted ticks for linear-time library searches/copies called by this statement
	if f.r.Ticks {
		f.tickCalls(s)
	}
	// R7: sync/atomic steps are scheduling points (a point in front of a statement is always harmless)
	if f.r.Atomics {
		switch s.(type) {
		case *ast.BlockStmt, *ast.LabeledStmt, *ast.DeclStmt:
		default:
			if f.hasAtomic(s) {
				f.insert(s.Pos(), "vsched.Point(\"atomic\"); ")
				f.sites["R7.atomic"]++
				f.need["vsched"] = true
			}
		}
	}
	// recurse into nested statement lists
	switch v := s.(type) {
	case *ast.BlockStmt:
		f.stmtList(v.List)
	case *ast.IfStmt:
		f.stmtList(v.Body.List)
		if v.Else != nil {
			f.elseStmt(v.Else)
		}
	case *ast.ForStmt:
		f.loopBody(v.Body)
	case *ast.RangeStmt:
		f.loopBody(v.Body)
	case *ast.SwitchStmt:
		f.clauses(v.Body)
	case *ast.TypeSwitchStmt:
		f.clauses(v.Body)
	case *ast.SelectStmt:
		f.clauses(v.Body)
	case *ast.LabeledStmt:
		f.stmt(v.Stmt)
	}
	// function literals anywhere inside this statement (defer func(){...}(), callbacks)
	ast.Inspect(s, func(n ast.Node) bool {
		switch v := n.(type) {
		case *ast.BlockStmt:
			return n == s // nested blocks were handled by the recursion above
		case *ast.FuncLit:
			f.funcBody(v.Body)
			return false
		}
		return true
	})
}

// hasAtomic reports whether s itself (not its nested blocks or function literals) calls a function of package
// sync/atomic or a Load/Store/Swap/CompareAndSwap method (the method set of the atomic types and of atomic.Value).
func (f *fileInstr) hasAtomic(s ast.Stmt) bool {
	found := false
	ast.Inspect(s, func(n ast.Node) bool {
		if found {
			return false
		}
		switch v := n.(type) {
		case *ast.BlockStmt:
			return n == ast.Node(s)
		case *ast.FuncLit:
			return false
		case *ast.CallExpr:
			if se, ok := v.Fun.(*ast.SelectorExpr); ok {
				if id, ok := se.X.(*ast.Ident); ok && id.Obj == nil && id.Name == "atomic" {
					found = true
					return false
				}
				switch se.Sel.Name {
				case "Load", "Store", "Swap", "CompareAndSwap":
					found = true
					return false
				}
			}
		}
		return true
	})
	return found
}

// tickCalls inserts vstep.TickN(len(arg0)) before s for every call bytes.X(arg0, ...) / strings.X(arg0, ...)
// / copy(arg0, ...) that s makes outside nested blocks and function literals, when arg0 is a plain
// identifier or selector that s itself does not declare.
func (f *fileInstr) tickCalls(s ast.Stmt) {
	switch s.(type) {
	case *ast.BlockStmt, *ast.LabeledStmt, *ast.DeclStmt:
		return
	}
	declared := map[string]bool{}
	var initStmt ast.Stmt
	switch v := s.(type) {
	case *ast.IfStmt:
		initStmt = v.Init
	case *ast.ForStmt:
		initStmt = v.Init
	case *ast.SwitchStmt:
		initStmt = v.Init
	case *ast.TypeSwitchStmt:
		initStmt = v.Init
	case *ast.RangeStmt:
		return
	}
	if as, ok := initStmt.(*ast.AssignStmt); ok && as.Tok == token.DEFINE {
		for _, l := range as.Lhs {
			if id, ok := l.(*ast.Ident); ok {
				declared[id.Name] = true
			}
		}
	}
	if as, ok := s.(*ast.AssignStmt); ok && as.Tok == token.DEFINE {
		for _, l := range as.Lhs {
			if id, ok := l.(*ast.Ident); ok {
				declared[id.Name] = true
			}
		}
	}
	simple := func(e ast.Expr) bool {
		for {
			switch v := e.(type) {
			case *ast.Ident:
				return !declared[v.Name]
			case *ast.SelectorExpr:
				e = v.X
			default:
				return false
			}
		}
	}
	// pure: an expression whose evaluation ahead of the statement has no side effect and that does not use a
	// name the statement itself declares
	var pure func(e ast.Expr) bool
	pure = func(e ast.Expr) bool {
		switch v := e.(type) {
		case *ast.Ident:
			return !declared[v.Name] && v.Name != "_"
		case *ast.BasicLit:
			return true
		case *ast.SelectorExpr:
			return pure(v.X)
		case *ast.ParenExpr:
			return pure(v.X)
		case *ast.StarExpr:
			return pure(v.X)
		case *ast.BinaryExpr:
			return pure(v.X) && pure(v.Y)
		case *ast.UnaryExpr:
			return (v.Op == token.SUB || v.Op == token.ADD || v.Op == token.XOR) && pure(v.X)
		case *ast.IndexExpr:
			return pure(v.X) && pure(v.Index)
		case *ast.CallExpr:
			id, ok := v.Fun.(*ast.Ident)
			if !ok || id.Obj != nil || len(v.Args) != 1 {
				return false
			}
			switch id.Name {
			case "len", "cap", "int", "int8", "int16", "int32", "int64", "uint", "uint8", "uint16", "uint32", "uint64", "byte":
				return pure(v.Args[0])
			}
		}
		return false
	}
	ast.Inspect(s, func(n ast.Node) bool {
		switch v := n.(type) {
		case *ast.BlockStmt:
			return n == ast.Node(s)
		case *ast.FuncLit:
			return false
		case *ast.CallExpr:
			// declared-size allocations: make(T, n[, c]) and x.Grow(n) with a side-effect-free size expression
			if id, ok := v.Fun.(*ast.Ident); ok && id.Name == "make" && id.Obj == nil && len(v.Args) >= 2 {
				if sz := v.Args[len(v.Args)-1]; pure(sz) {
					f.insert(s.Pos(), fmt.Sprintf("vstep.Alloc(int64(%s)); ", f.text(sz)))
					f.sites["R6.alloc"]++
					f.need["vstep"] = true
				} else {
					f.sites["R6.alloc-skipped"]++
				}
				return true
			}
			if se, ok := v.Fun.(*ast.SelectorExpr); ok && se.Sel.Name == "Grow" && len(v.Args) == 1 && pure(v.Args[0]) {
				f.insert(s.Pos(), fmt.Sprintf("vstep.Alloc(int64(%s)); ", f.text(v.Args[0])))
				f.sites["R6.alloc"]++
				f.need["vstep"] = true
				return true
			}
			if len(v.Args) == 0 || !simple(v.Args[0]) {
				return true
			}
			hit := false
			if se, ok := v.Fun.(*ast.SelectorExpr); ok {
				if id, ok := se.X.(*ast.Ident); ok && id.Obj == nil && (id.Name == "bytes" || id.Name == "strings") {
					switch se.Sel.Name {
					case "Index", "IndexByte", "IndexAny", "LastIndex", "Contains", "Count", "Equal", "HasPrefix", "HasSuffix", "Split", "Fields", "TrimSpace", "ToLower", "Replace", "EqualFold":
						hit = true
					}
				}
			} else if id, ok := v.Fun.(*ast.Ident); ok && id.Name == "copy" && id.Obj == nil {
				hit = true
			}
			if hit {
				f.insert(s.Pos(), fmt.Sprintf("vstep.TickN(len(%s)); ", f.text(v.Args[0])))
				f.sites["R6.call"]++
				f.need["vstep"] = true
			}
		}
		return true
	})
}

func (f *fileInstr) elseStmt(s ast.Stmt) {
	switch v := s.(type) {
	case *ast.BlockStmt:
		f.stmtList(v.List)
	case *ast.IfStmt:
		// else-if: no insertion before it (not in a statement list), recurse only
		f.stmtList(v.Body.List)
		if v.Else != nil {
			f.elseStmt(v.Else)
		}
	}
}

func (f *fileInstr) clauses(b *ast.BlockStmt) {
	for _, c := range b.List {
		switch v := c.(type) {
		case *ast.CaseClause:
			f.stmtList(v.Body)
		case *ast.CommClause:
			f.stmtList(v.Body)
		}
	}
}

func (f *fileInstr) loopBody(b *ast.BlockStmt) {
	if f.r.Ticks {
		f.insert(b.Lbrace+1, " vstep.Tick(); ")
		f.sites["R6.loop"]++
		f.need["vstep"] = true
	}
	f.stmtList(b.List)
}

func (f *fileInstr) funcBody(b *ast.BlockStmt) {
	if b == nil {
		return
	}
	if f.r.Ticks {
		f.insert(b.Lbrace+1, " vstep.Tick(); ")
		f.sites["R6.func"]++
		f.need["vstep"] = true
	}
	f.stmtList(b.List)
}

// instrumentFile returns the rewritten source, or nil when nothing changed.
func instrumentFile(path string, r PkgRules, sites map[string]int) ([]byte, error) {
	src, err := os.ReadFile(path)
	if err != nil {
		return nil, err
	}
	fset := token.NewFileSet()
	af, err := parser.ParseFile(fset, path, src, parser.ParseComments)
	if err != nil {
		return nil, err
	}
	f := &fileInstr{fset: fset, src: src, sites: sites, need: map[string]bool{}, r: r}
	timeName := ""
	for _, im := range af.Imports {
		p := strings.Trim(im.Path.Value, "\"`")
		if p == "sync" && r.SyncSwap {
			if im.Name == nil {
				f.replace(im.Path.Pos(), im.Path.End(), "sync \""+shimBase+"vsync\"")
			} else {
				f.replace(im.Path.Pos(), im.Path.End(), "\""+shimBase+"vsync\"")
			}
			sites["R1.import"]++
		}
		if p == "time" {
			timeName = "time"
			if im.Name != nil {
				timeName = im.Name.Name
			}
		}
	}
	if r.Timers && timeName != "" && timeName != "_" && timeName != "." {
		ast.Inspect(af, func(n ast.Node) bool {
			if se, ok := n.(*ast.SelectorExpr); ok {
				if id, ok := se.X.(*ast.Ident); ok && id.Name == timeName && id.Obj == nil && se.Sel.Name == "NewTimer" {
					f.replace(id.Pos(), id.End(), "vtime")
					sites["R2b.NewTimer"]++
					f.need["vtime"] = true
				}
			}
			return true
		})
	}
	if r.Time && timeName != "" && timeName != "_" && timeName != "." {
		ast.Inspect(af, func(n ast.Node) bool {
			if se, ok := n.(*ast.SelectorExpr); ok {
				if id, ok := se.X.(*ast.Ident); ok && id.Name == timeName && id.Obj == nil {
					switch se.Sel.Name {
					case "Now", "Since", "Sleep":
						f.replace(id.Pos(), id.End(), "vtime")
						sites["R2."+se.Sel.Name]++
						f.need["vtime"] = true
					}
				}
			}
			return true
		})
	}
	for _, d := range af.Decls {
		if fd, ok := d.(*ast.FuncDecl); ok {
			f.funcBody(fd.Body)
		} else if gd, ok := d.(*ast.GenDecl); ok {
			// function literals in package-level var initialisers
			ast.Inspect(gd, func(n ast.Node) bool {
				if fl, ok := n.(*ast.FuncLit); ok {
					f.funcBody(fl.Body)
					return false
				}
				return true
			})
		}
	}
	if len(f.edits) == 0 {
		return nil, nil
	}
	// imports for the shims, on the package clause line
	var imps []string
	for k := range f.need {
		imps = append(imps, k)
	}
	sort.Strings(imps)
	if len(imps) > 0 {
		var b strings.Builder
		for _, k := range imps {
			fmt.Fprintf(&b, "; import %s \"%s%s\"", k, shimBase, k)
		}
		f.insert(af.Name.End(), b.String())
	}
	sort.SliceStable(f.edits, func(i, j int) bool {
		if f.edits[i].off != f.edits[j].off {
			return f.edits[i].off > f.edits[j].off
		}
		return f.edits[i].ord > f.edits[j].ord
	})
	out := append([]byte{}, src...)
	for _, e := range f.edits {
		out = append(out[:e.off], append([]byte(e.text), out[e.off+e.del:]...)...)
	}
	// the result must still parse
	if _, err := parser.ParseFile(token.NewFileSet(), path, out, 0); err != nil {
		return nil, fmt.Errorf("instrumented %s does not parse: %v", path, err)
	}
	return out, nil
}

// BuildOverlay writes instrumented copies, export files and shims into
// scratch and returns the overlay file path plus per-rule site counts.
func BuildOverlay(repo, engine, scratch string, rules []PkgRules) (string, map[string]int, error) {
	replace := map[string]string{}
	sites := map[string]int{}
	// virtual shim packages
	shimDir := filepath.Join(engine, "shim")
	ents, err := os.ReadDir(shimDir)
	if err != nil {
		return "", nil, err
	}
	for _, e := range ents {
		if !e.IsDir() {
			continue
		}
		files, _ := filepath.Glob(filepath.Join(shimDir, e.Name(), "*.go"))
		for _, fp := range files {
			if strings.HasSuffix(fp, "_test.go") {
				continue
			}
			replace[filepath.Join(repo, "verifshim", e.Name(), filepath.Base(fp))] = fp
		}
	}
	for _, r := range rules {
		dir := filepath.Join(repo, r.Pkg)
		files, _ := filepath.Glob(filepath.Join(dir, "*.go"))
		for _, fp := range files {
			if strings.HasSuffix(fp, "_test.go") {
				continue
			}
			ps := map[string]int{}
			out, err := instrumentFile(fp, r, ps)
			if err != nil {
				return "", nil, err
			}
			if out == nil {
				continue
			}
			for k, v := range ps {
				sites[r.Pkg+"/"+k] += v
			}
			dst := filepath.Join(scratch, "instr", r.Pkg, filepath.Base(fp))
			os.MkdirAll(filepath.Dir(dst), 0755)
			if err := os.WriteFile(dst, out, 0644); err != nil {
				return "", nil, err
			}
			replace[fp] = dst
		}
		if r.Export != "" {
			replace[filepath.Join(dir, "verif_export.go")] = filepath.Join(engine, "export", r.Export)
		}
	}
	ov := filepath.Join(scratch, "overlay.json")
	b, _ := json.MarshalIndent(map[string]interface{}{"Replace": replace}, "", " ")
	if err := os.WriteFile(ov, b, 0644); err != nil {
		return "", nil, err
	}
	return ov, sites, nil
}
