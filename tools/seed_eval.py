#!/usr/bin/env python3
"""seed_eval.py <ID> [checks...] : confirm a seeded change produced by an independent sub-agent in /tmp/wt/<ID>,
store it under /verif/seeded/<ID>/, run the given checks (default: the property's own) against it and record the result."""
import sys, os, subprocess, json, shutil, re, time
ID = sys.argv[1]; checks = sys.argv[2:] or [ID[:3]]
WT = '/tmp/wt/' + ID; SEED = WT + '/_seed'; OUT = '/verif/seeded/' + ID
env = dict(os.environ, GOFLAGS='-mod=mod', GOPROXY='off', GOSUMDB='off', GOTOOLCHAIN='local')
def sh(cmd, cwd=None, timeout=1800):
    r = subprocess.run(cmd, shell=True, cwd=cwd, env=env, capture_output=True, text=True, timeout=timeout)
    return r.returncode, (r.stdout + r.stderr)
os.makedirs(OUT, exist_ok=True)
for f in os.listdir(SEED):
    src = os.path.join(SEED, f)
    if os.path.isdir(src):
        shutil.copytree(src, os.path.join(OUT, f), dirs_exist_ok=True)
    else:
        shutil.copy(src, OUT)
patch = os.path.join(OUT, 'patch.diff')
files = re.findall(r'^\+\+\+ b/(\S+)', open(patch).read(), re.M)
demo = open(os.path.join(OUT, 'DEMO_CMD.txt')).read().strip()
meta = {'property': ID[:3], 'seed_id': ID, 'files_changed': files, 'demo_cmd': demo, 'ran': []}
# 1. scratch worktree confirmation: pristine -> demo passes; patched -> suite passes, demo fails
sh('git checkout -- . && git clean -fdq -e _seed', WT)
rc0, o0 = sh(demo, WT)
meta['ran'].append({'what': 'demo on pristine scratch worktree', 'exit': rc0})
sh('git checkout -- . && git clean -fdq -e _seed', WT)
rc, o = sh('git apply _seed/patch.diff', WT); assert rc == 0, o
rcb, ob = sh('go build ./...', WT)
rcs, os_ = sh('go test -vet=off -count=1 ./... 2>&1 | grep -v "no test files"', WT)
suite_ok = rcb == 0 and 'FAIL' not in os_
meta['ran'].append({'what': 'go build + existing suite with the change (scratch worktree)', 'ok': suite_ok})
rc1, o1 = sh(demo, WT)
sh('git clean -fdq -e _seed', WT)
meta['ran'].append({'what': 'demo with the change (scratch worktree)', 'exit': rc1})
meta['confirmed'] = (rc0 == 0 and rc1 != 0 and suite_ok)
print(f"{ID}: demo pristine exit={rc0}, suite with change ok={suite_ok}, demo with change exit={rc1} -> confirmed={meta['confirmed']}")
if not meta['confirmed']:
    print(o0[-600:], os_[-600:], o1[-600:])
# 2. our checks against it: the driver is pointed at the scratch worktree (patch applied there); /repo is not touched
rc, o = sh('git apply --check -R _seed/patch.diff', WT)
if rc != 0:
    sh('git apply _seed/patch.diff', WT)
meta['checks'] = {}
for c in checks:
    t = time.time()
    rc, o = sh(f'VERIF_REPO={WT} /verif/bin/verif check {c} --tier quick')
    keys = re.findall(r'^  key=(\S+)', o, re.M)
    meta['checks'][c] = {'exit': rc, 'violation_keys': keys, 'wall_s': round(time.time() - t, 1)}
    print(f"  {c}: exit={rc} keys={keys[:6]}")
    if rc not in (0, 1): print(o[-1500:])
meta['detected_by'] = [c for c, v in meta.get('checks', {}).items() if v['exit'] == 1]
json.dump(meta, open(os.path.join(OUT, 'meta.json'), 'w'), indent=1)
st = subprocess.run('git -C /repo status --short', shell=True, capture_output=True, text=True).stdout
if st.strip(): print("WARNING /repo not clean:", st)
