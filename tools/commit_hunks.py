#!/usr/bin/env python3
"""commit_hunks.py <repo-file> <comma-separated hunk numbers (1-based)> <commit message file>
Commits only the selected hunks of the working-tree diff of ONE file in /repo (index-only commit; working tree untouched)."""
import sys, subprocess, re, tempfile, os
f, sel, msgf = sys.argv[1], [int(x) for x in sys.argv[2].split(',')], sys.argv[3]
d = subprocess.run(['git', '-C', '/repo', 'diff', '--', f], capture_output=True, text=True).stdout
parts = re.split(r'(?m)^(?=@@ )', d)
head, hunks = parts[0], parts[1:]
print(len(hunks), "hunks in working tree diff")
patch = head + ''.join(hunks[i-1] for i in sel)
with tempfile.NamedTemporaryFile('w', suffix='.patch', delete=False) as t:
    t.write(patch); name = t.name
r = subprocess.run(['git', '-C', '/repo', 'apply', '--cached', '--recount', name], capture_output=True, text=True)
os.unlink(name)
if r.returncode != 0:
    print(r.stderr); sys.exit(1)
r = subprocess.run(['git', '-C', '/repo', 'commit', '-q', '-F', msgf], capture_output=True, text=True)
print(r.stdout, r.stderr)
print(subprocess.run(['git', '-C', '/repo', 'log', '--oneline', '-1'], capture_output=True, text=True).stdout)
