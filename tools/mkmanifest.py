#!/usr/bin/env python3
"""Regenerates /verif/MANIFEST.json from the table below (keeps it schema-valid)."""
import json, os, sys
V = "/verif"
CHECKS = {
 "C04": dict(engine="E1", cat="model_checking",
   text="Every interleaving (bounds 0,1,2,3 then unbounded; state-key pruning for the larger scenarios) of a writer goroutine sending 1-4 requests and a reader goroutine reading/decoding the responses on one real rtmp.Protocol, with a peer that answers inside the transport Write call. Each complete schedule is judged: one correctly typed response per request, no spurious 'no matched request', nothing left in the transaction table, no deadlock/panic. A separate free-running -race pass of the same bodies decides the data-race clause.",
   note="Scheduling points are the hooked operations only (transport read/write, transaction-mutex lock/unlock via the vsync shim); sequentially consistent interleavings. Peer answers in order. Race clause: dynamic race detection of 400 free runs, not exhaustive.",
   tech="stateless model checking of the real code under a controlled scheduler (preemption-bounded DFS to unbounded, state-key pruning) + separate race-detector pass", ref="DESIGN.md §3 C04"),
 "C11": dict(engine="E3", cat="exploration",
   text="Exhaustive enumeration of all 65536 AudioSpecificConfig values, all 420 accepted configurations x boundary raw lengths (every length 1..8184 in thorough), 2-3 frame concatenations, and reference-writer frames over every header field combination, each compared with an independent ISO 13818-7 writer/parser. Complete inside the stated alphabets; payload bytes are one fixed pattern.",
   note="Trusted: the reference ADTS writer/parser (engine/ref/adtsref) and the Go toolchain. Payload contents are not enumerated.",
   tech="bounded-exhaustive input enumeration against a reference model (explicit enumeration, no sampling)", ref="DESIGN.md §3 C11"),
 "C15": dict(engine="E1", cat="model_checking",
   text="Every interleaving within the completed preemption bound (quick: bound 3 for 3-thread and 2 for 4-thread scenarios; thorough: unbounded with state-key pruning) of a data writer (two-write 'extra' path, multi-frame NextWriter path, two messages), ping/pong senders, a closer (Close frame or Conn.Close) and a ping-answering reader on one real websocket.Conn. The wire log of every complete schedule must parse as whole frames each written by one goroutine, nothing after a Close frame, data messages intact and in order, writes started after the Close frame refused with ErrCloseSent, no deadlock/panic. Separate free-running -race pass.",
   note="The lock channel c.mu and writeErrMu are the scheduling points (instrumentation rules R3/R1), plus every transport call. The WriteControl lock-timeout path is not explored (deadlines zero). One data writer.",
   tech="stateless model checking of the real code under a controlled scheduler (preemption-bounded DFS, state-key pruning) + separate race-detector pass", ref="DESIGN.md §3 C15"),
 "C18": dict(engine="E1", cat="model_checking",
   text="Every interleaving (unbounded for 2-3 goroutines, preemption-bounded for 3-4 goroutines with two allocations each) of goroutines calling WithContext/AliasContext and logging, with the shared id counter's read-modify-write split into separately scheduled read and write steps (rule R4): ids pairwise distinct, alias carries its source's id, every logging call is exactly one well-formed line with the right cid. Plus an exhaustive sequential sweep of 10 log functions x 8 context kinds x 7 messages, and a free-running -race pass.",
   note="Line wholeness is judged per Write call on the installed writer. Info level is discarded by design. Race clause: dynamic detection over 300 free runs x 8 goroutines.",
   tech="stateless model checking of the real code under a controlled scheduler (preemption-bounded DFS to unbounded) + separate race-detector pass", ref="DESIGN.md §3 C18"),
}
PENDING_REASON = "check not built yet in this snapshot of /verif (work in progress; see DESIGN.md for the planned model-checking design)"
ALL = ["C%02d" % i for i in range(1, 21)]
def main():
    extra = {}
    p = os.path.join(V, "tools", "manifest_checks.json")
    if os.path.exists(p):
        extra = json.load(open(p))
    checks = dict(CHECKS); checks.update(extra)
    m = {
     "version": 1,
     "setup_cmd": "cd /verif/engine && GOFLAGS=-mod=mod GOPROXY=off GOSUMDB=off GOTOOLCHAIN=local go build -o /verif/bin/verif ./cmd/verif && /verif/bin/verif warm",
     "hooks": {
      "guard": "verif",
      "enable": "no hooks live in /repo: every check regenerates instrumented copies of the library files it needs from /repo's current working tree (engine/instr, rules R1-R6: sync->vsync shim, time seam, lock-channel awaits, split global read-modify-writes, go statements, step ticks) plus virtual shim packages (verifshim/vsched, vsync, vstep, vtime) and in-package export files, all carrying //go:build verif, and builds the harness with `go build -tags verif -overlay <scratch>/overlay.json`",
      "baseline_off_cmd": "cd /repo && GOFLAGS=-mod=mod GOPROXY=off GOSUMDB=off GOTOOLCHAIN=local go test -vet=off -count=1 -timeout 25m ./...",
      "source_commits": [],
      "add_only": True
     },
     "engines": [
      {"name": "E1", "path": "engine/shim/vsched + engine/mc", "serves_properties": [k for k in ALL if checks.get(k, {}).get("engine") == "E1"], "kind_free_text": "stateless choice-tree explorer + cooperative scheduler over the instrumented real code (deviation/preemption-bounded DFS, optional state-key pruning, replay-twice determinism protocol)"},
      {"name": "E2", "path": "engine/mc", "serves_properties": [k for k in ALL if checks.get(k, {}).get("engine") == "E2"], "kind_free_text": "explicit-state search over operation histories of real objects (replay path + one operation, canonical state key from a reflection dump of private state), reference model compared on every transition"},
      {"name": "E3", "path": "engine/checks", "serves_properties": [k for k in ALL if checks.get(k, {}).get("engine") == "E3"], "kind_free_text": "bounded-exhaustive enumeration of inputs / operation sequences / fault positions against reference models written from the specifications"}
     ],
     "checks": [], "not_applicable": [],
     "notes": "All checks run the real library code (no translated model). Defects found are recorded in known_findings.json (fixed: entries name the fix: commit in /repo)."
    }
    for k in ALL:
        if k in checks:
            c = checks[k]
            m["checks"].append({
             "property_id": k,
             "quick_cmd": f"/verif/bin/verif check {k} --tier quick",
             "thorough_cmd": f"/verif/bin/verif check {k} --tier thorough",
             "evidence_file": f"/verif/evidence/{k}.json",
             "replay_cmd_template": f"/verif/bin/verif replay {k} {{path}}",
             "engine": c["engine"],
             "level_claimed": {"category": c["cat"], "text": c["text"], "design_ref": c["ref"]},
             "level_note": c["note"], "technique": c["tech"]})
        else:
            m["not_applicable"].append({"property_id": k, "reason": PENDING_REASON})
    json.dump(m, open(os.path.join(V, "MANIFEST.json"), "w"), indent=1)
    try:
        import jsonschema
        jsonschema.validate(m, json.load(open("/root/.vp/MANIFEST.schema.json")))
        print("MANIFEST.json valid:", len(m["checks"]), "checks,", len(m["not_applicable"]), "not claimed")
    except ImportError:
        print("written (jsonschema not importable here)")
main()
