#!/usr/bin/env python3
"""Regenerates /verif/MANIFEST.json from the table below (keeps it schema-valid)."""
import json, os, sys
V = "/verif"
CHECKS = {
 "C04": dict(engine="E1", cat="model_checking",
   text="Every interleaving (bounds 0,1,2,3 then unbounded; state-key pruning for the larger scenarios) of a writer goroutine sending 1-4 requests and a reader goroutine reading/decoding the responses on one real rtmp.Protocol, with a peer that answers inside the transport Write call. Each complete schedule is judged: one correctly typed response per request, no spurious 'no matched request', nothing left in the transaction table, no deadlock/panic. A separate free-running -race pass of the same bodies decides the data-race clause.",
   note="Scheduling points are the hooked operations only (transport read/write, transaction-mutex lock/unlock via the vsync shim); sequentially consistent interleavings. Peer answers in order. Race clause: dynamic race detection of 400 free runs, not exhaustive.",
   tech="stateless model checking of the real code under a controlled scheduler (preemption-bounded DFS to unbounded, state-key pruning) + separate race-detector pass", ref="DESIGN.md §3 C04"),
 "C11": dict(engine="E3", cat="exploration",
   text="Exhaustive enumeration of all 65536 AudioSpecificConfig values, all 420 accepted configurations x boundary raw lengths (every length 1..8184 in thorough), 2-3 frame concatenations, and reference-writer frames over every header field combination, each compared with an independent ISO 13818-7 writer/parser. Complete inside the stated alphabets; payload bytes are one fixed pattern.",
   note="Trusted: the reference ADTS writer/parser (engine/ref/adtsref) and the Go toolchain. Payload contents are not enumerated.",
   tech="bounded-exhaustive input enumeration against a reference model (explicit enumeration, no sampling)", ref="DESIGN.md §3 C11"),
 "C15": dict(engine="E1", cat="model_checking",
   text="Every interleaving within the completed preemption bound (quick: bound 3 for 3-thread and 2 for 4-thread scenarios; thorough: unbounded with state-key pruning) of a data writer (two-write 'extra' path, multi-frame NextWriter path, two messages), ping/pong senders, a closer (Close frame or Conn.Close) and a ping-answering reader on one real websocket.Conn. The wire log of every complete schedule must parse as whole frames each written by one goroutine, nothing after a Close frame, data messages intact and in order, writes started after the Close frame refused with ErrCloseSent, no deadlock/panic. Separate free-running -race pass.",
   note="The lock channel c.mu and writeErrMu are the scheduling points (instrumentation rules R3/R1), plus every transport call. One data writer.",
   tech="stateless model checking of the real code under a controlled scheduler (preemption-bounded DFS, state-key pruning) + separate race-detector pass", ref="DESIGN.md §3 C15"),
 "C18": dict(engine="E1", cat="model_checking",
   text="Every interleaving (unbounded for 2-3 goroutines, preemption-bounded for 3-4 goroutines with two allocations each) of goroutines calling WithContext/AliasContext and logging, with the shared id counter's read-modify-write split into separately scheduled read and write steps (rule R4): ids pairwise distinct, alias carries its source's id, every logging call is exactly one well-formed line with the right cid. Plus an exhaustive sequential sweep of 10 log functions x 8 context kinds x 7 messages, and a free-running -race pass.",
   note="Line wholeness is judged per Write call on the installed writer. Info level is discarded by design. Race clause: dynamic detection over 300 free runs x 8 goroutines.",
   tech="stateless model checking of the real code under a controlled scheduler (preemption-bounded DFS to unbounded) + separate race-detector pass", ref="DESIGN.md §3 C18"),
}

# families added after the seeded-change rounds 4-6 (DESIGN.md 10.7); appended to the level text of each check
ADDENDA = {
 "C01": " Also: the simple handshake run step by step on both sides with the first messages queued directly behind the last handshake packet (all 224 interleavings x 76/695 read segmentations); long sessions in which chunk/message/byte counts per stream and per connection reach 2^8 and 2^16 (thorough 2^24) at every phase of a multi-chunk message.",
 "C02": " Also family W: timestamp accumulation across 0xFFFFFF and 2^31 by every header type (26 moves per node, depth 4/5, 1-3 chunk messages); family Z: zero-length messages at every position followed by every legal header type. Family M: 2..320 (..65598) chunk streams opened across the 1-/2-/3-byte id forms, then every kind of return (16 headers) to 15 opening positions, a message pending across the opening, negatives after every opening. Family D: 25 local writes (own Set Chunk Size, messages, control packets, commands) at every position between the reads of the peer's stream - decoding depends on the peer's stream alone.",
 "C03": " Also: typed waits (ExpectMessage with every ordered selection of 1-3 of 7 types, ExpectPacket for 11 packet types) over every arrival order up to length 4/5 against a cursor model; every sequence of 1-3 (4/5) of 18 control-message kinds decoded by one Protocol in 9 modes with all returned packets kept and re-compared field by field; large packets (15 packet kinds + raw messages, payloads around 4096/8192/65536 and around the chunk size) after announced chunk sizes up to 2^31-1; packets re-observed after exactly one (two) change(s) of a field or nested property.",
 "C04": " Also: segmented and back-pressured transports, transaction ids that collide under integer conversion, and a transport write that fails (bytes delivered or not) at every write index. Also responses that match no recorded request (unused id, id 0, duplicates, replies to untracked calls) at every position around the tracked exchanges. Deferred decode: messages read 2, 3 or all at a time and decoded afterwards, a kept message must still equal the peer's bytes. Reused transaction ids over stale records of another request kind.",
 "C05": " Also: every history of up to 4 (5) operations over Set/Get/nested Set/Size() on fresh and decoded containers against an ordered-map model; and near-valid byte strings (every small wire tree with one byte substituted/deleted/inserted or its terminator altered, followed by a sentinel): for accepted strings Size() equals the shortest decoding prefix and the sentinel decodes at that offset; independence of decoded values (one decoded leaf changed through every handle, the other decoded trees unchanged). Key-length family: names and strings of every length 0..300 and the 2^k boundaries up to 65535, pairs of name lengths, containers of 0..300 members.",
 "C06": " Also: retention - every ordered pair over 243 (870) values in four histories, a kept marshalled slice must stay the specification encoding after later marshals/decodes. Mutate family: every container-rooted tree x every reachable node x in-place overwrite / Set, from built and decoded origins, cold and after a first Size()+Marshal; root and ancestors re-marshalled and read by the independent decoder. Reuse family: typed UnmarshalBinary on used targets (zero value, constructor, conversion, Discovery, after successful and failing decodes) for every encoding of the type's alphabet. Key-length family in both directions (names / strings 0..300 and 2^k boundaries up to 65535). Every library decode runs on a private copy of the input that is overwritten after the call.",
 "C07": " Also: FLV tag bodies (every pair of leading bytes x every length 2..9); JOSE objects with one header/JWK member or serialisation part rewritten over a value alphabet; declared-size allocations (make/Grow accounted before they happen, 48 MiB + 256 per input byte per call) and, for RTMP, every sequence of up to 3 (4) chunk headers over 54 header shapes. JSON+ pump grid (5 lexical contexts x 16 scanner units); WebSocket also through ReadMessage; growth of declared-size allocations judged like growth of steps. ocsp.ParseResponseForCert with matching / non-matching / zero / negative serial numbers, with and without an issuer. WebSocket reader after the application's own Close, with the post-call invariant that the write token is back.",
 "C08": " Also: write faults as the product of call index x {persistent, one-shot} x accepted byte count (0, 1, 2, half, len-2, len-1, len) on every write path; one-shot FLV read faults delivering 0-3 bytes together with the error. RTMP read faults over peer Set Chunk Size history (128..0x7fffffff) x message sizes x layouts x dense fault offsets x 6 fault kinds x 4 read segmentations. rtmp-bh: chunk stream ids in the 1-/2-/3-byte basic-header forms, every wire offset x 6 fault kinds x 3 segmentations. Carry-on family: after a one-shot write fault the caller continues / retries / retries on a second writer; the transport holds exactly the accepted bytes plus the items whose call returned nil.",
 "C09": " Also: the product of reader behaviours (all/<=n/packets of n/two pieces x EOF alone or with the final bytes x empty reads) bodies above 64 KiB in front of another tag, bodies of 2^24-12..2^24-1 bytes, and every muxer call sequence of 1-4 (5) WriteHeader/WriteTag calls.",
 "C11": " Also: object histories (91 steps: SetASC, writes through ASC(), Encode, Decode of own and ISO-writer frames, failing calls) in front of every frame, and every sequence of 1-3 (4) of 16 boundary raw lengths encoded on one object. Config histories: 77 (4617) prior object states x all 65536 two-byte configs through UnmarshalBinary and SetASC, followed by a valid config and an ISO frame with all-different fields.",
 "C12": " Also: parse -> change one exported field -> marshal against the ISO writer (all 256 headers x all 128 settable values, histories of depth 2/3), and parameter-set payloads whose leading bytes correlate with the record's profile/compatibility/level; one object receiving every sequence of 1-3 (4) UnmarshalBinary calls, compared with a fresh object. Header cube: all 256^3 (profile, compatibility, level) triples x 2 (3) bodies, and all reserved-bit patterns x NAL length sizes over 648 (6156) triples. Records are also read into a zero-value target. Afterfail: a conformant marshal after an unrepresentable one on the same object.",
 "C13": " Also: compression levels {-2,-1,0,1,9} (all -2..9) in every family, settings changed between messages, one prepared message shared by differently configured connections, and raw clients/servers speaking 19 extension offers / 10 responses and using context takeover whenever the negotiated response permits it; ReadFrom/io.Copy over the product of source chunkings x {EOF alone, EOF with the last bytes} x empty reads x layouts; receivers that call NextReader before the previous message was drained (13 behaviours, pairs and triples). Big frames: write buffers around 2^16 and 2^17 so that a single client/server frame reaches the 64-bit length form, x sizes x write APIs x compression, also over Dial/Upgrade. Unclosed writers: messages left open and implicitly closed by the next entry point, late calls on stale writers.",
 "C14": " Also: one Close frame for every code at the class boundaries (41; thorough all 65536) x 483 reasons built from 69 well- and ill-formed UTF-8 sequences, in 24 receiver states/configurations, and every byte string <= 3 (4) over the RFC 3629 boundary bytes as reason; the read limit with 0-2 (3) control frames in every slot between the fragments of messages around L and 2L. Length form as an independent coordinate (7/16/64-bit x decoded value incl. non-minimal encodings) for every opcode in 4 (7) contexts.",
 "C15": " Also: a one-shot transport write failure (timeout/plain error, nothing/half accepted) at every position of the write history, and WriteControl lock-wait timeouts as costed scheduler choices; every transport write must run under the write deadline its own caller set. Every exported write entry point (prepared messages in four cache configurations, WriteJSON, compressed paths, five Close routes) in scheduled scenarios and in sequential histories with transport failures at every write index. Open-writer family: control and data messages through every entry point while a data writer holds unflushed bytes. Delivery clause: every clean wire is replayed into a fresh peer Conn, which must deliver exactly the complete data messages in order.",
 "C16": " Also: multi-signature (general JSON) objects with every bit of every protected header, signature and payload flipped, and a header-injection family (crit, alg overrides, algorithm confusion, absent/empty signatures, forgeries by other keys) in the protected and unprotected header; signer/encrypter histories (one instance, 2-3 (4) calls with changing embed/nonce/compression/AAD, every object examined only afterwards); multi-recipient JWE over every ordered pair and triple of key-management algorithms with distinct keys; result retention (results, serialisations and inputs of one object held across operations on another).",
 "C18": " Also: every history of up to 4 (6) operations over Switch(3 writers)/Close/10 logging calls against a writer-state model, 13 scheduled pre-histories, and the 7 formatted variants with 13 (format, arguments) pairs; goroutines aliasing shared sources, with sync/atomic operations as scheduling points (R7). Operands passed by spreading slices with and without spare capacity, reused across calls and shared between goroutines; the caller's array must stay unchanged. Derived parents: WithContext / AliasContext over every context term of <= 6 (8) nodes against an id model. Operand lists of every count 4..18 and 31..34.",
 "C19": " Also: 51 request targets (callback absent/empty/repeated/near-miss/percent-encoded) x 182 (407) handler kinds, and 118 string atoms (every C0/C1 control, DEL, invalid UTF-8, U+2028/9, astral runes, JSON syntax) through 26 carriers; one handler object serving 1-3 (4) requests while the value behind it changes, compared with a fresh handler; histories in which oh.Server and the Filter* variables change between responses; 6 (7) methods x 11 (19) request-body shapes x queries (the body never selects the callback). Plain errors with every Status() in 400..599.",
 "C20": " Also: lifecycle histories over Start/Close/sample/wait (restart, reads between sampling instants); prefixes of Close/reads/moves before the first Start (every read refused).",
}
PENDING_REASON = "check not built yet in this snapshot of /verif (work in progress; see DESIGN.md for the planned model-checking design)"
ALL = ["C%02d" % i for i in range(1, 21)]
def main():
    extra = {}
    p = os.path.join(V, "tools", "manifest_checks.json")
    if os.path.exists(p):
        extra = json.load(open(p))
    checks = dict(CHECKS); checks.update(extra)
    m = {
     "version": 1,
     "setup_cmd": "cd /verif/engine && GOFLAGS=-mod=mod GOPROXY=off GOSUMDB=off GOTOOLCHAIN=local go build -o /verif/bin/verif ./cmd/verif && /verif/bin/verif warm",
     "hooks": {
      "guard": "verif",
      "enable": "no hooks live in /repo: every check regenerates instrumented copies of the library files it needs from /repo's current working tree (engine/instr, rules R1-R6: sync->vsync shim, time seam, lock-channel awaits, split global read-modify-writes, go statements, step ticks) plus virtual shim packages (verifshim/vsched, vsync, vstep, vtime) and in-package export files, all carrying //go:build verif, and builds the harness with `go build -tags verif -overlay <scratch>/overlay.json`",
      "baseline_off_cmd": "cd /repo && GOFLAGS=-mod=mod GOPROXY=off GOSUMDB=off GOTOOLCHAIN=local go test -vet=off -count=1 -timeout 25m ./...",
      "source_commits": [],
      "add_only": True
     },
     "engines": [
      {"name": "E1", "path": "engine/shim/vsched + engine/mc", "serves_properties": [k for k in ALL if checks.get(k, {}).get("engine") == "E1"], "kind_free_text": "stateless choice-tree explorer + cooperative scheduler over the instrumented real code (deviation/preemption-bounded DFS, optional state-key pruning, replay-twice determinism protocol)"},
      {"name": "E2", "path": "engine/mc", "serves_properties": [k for k in ALL if checks.get(k, {}).get("engine") == "E2"], "kind_free_text": "explicit-state search over operation histories of real objects (replay path + one operation, canonical state key from a reflection dump of private state), reference model compared on every transition"},
      {"name": "E3", "path": "engine/checks", "serves_properties": [k for k in ALL if checks.get(k, {}).get("engine") == "E3"], "kind_free_text": "bounded-exhaustive enumeration of inputs / operation sequences / fault positions against reference models written from the specifications"}
     ],
     "checks": [], "not_applicable": [],
     "notes": "All checks run the real library code (no translated model). Defects found are recorded in known_findings.json (fixed: entries name the fix: commit in /repo)."
    }
    for k in ALL:
        if k in checks:
            c = checks[k]
            m["checks"].append({
             "property_id": k,
             "quick_cmd": f"/verif/bin/verif check {k} --tier quick",
             "thorough_cmd": f"/verif/bin/verif check {k} --tier thorough",
             "evidence_file": f"/verif/evidence/{k}.json",
             "replay_cmd_template": f"/verif/bin/verif replay {k} {{path}}",
             "engine": c["engine"],
             "level_claimed": {"category": c["cat"], "text": c["text"] + ADDENDA.get(k, ""), "design_ref": c["ref"]},
             "level_note": c["note"], "technique": c["tech"]})
        else:
            m["not_applicable"].append({"property_id": k, "reason": PENDING_REASON})
    json.dump(m, open(os.path.join(V, "MANIFEST.json"), "w"), indent=1)
    try:
        import jsonschema
        jsonschema.validate(m, json.load(open("/root/.vp/MANIFEST.schema.json")))
        print("MANIFEST.json valid:", len(m["checks"]), "checks,", len(m["not_applicable"]), "not claimed")
    except ImportError:
        print("written (jsonschema not importable here)")
main()
