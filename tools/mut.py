#!/usr/bin/env python3
"""mut.py <repo-relative-file> <check-id>[,<id>...] <<< 'OLD\n===\nNEW'  : apply a textual mutation to ONE file of /repo,
run the repo package's tests and the given quick checks, then restore that file from git (only that file)."""
import sys, subprocess, os
f, ids = sys.argv[1], sys.argv[2].split(',')
old, new = sys.stdin.read().split('\n===\n')
new = new.rstrip('\n')
p = os.path.join('/repo', f); s = open(p).read()
if s.count(old) != 1:
    print("pattern occurs", s.count(old), "times"); sys.exit(3)
orig = s
open(p, 'w').write(s.replace(old, new))
env = dict(os.environ, GOFLAGS='-mod=mod', GOPROXY='off', GOSUMDB='off', GOTOOLCHAIN='local')
try:
    r = subprocess.run(['go', 'test', '-vet=off', '-count=1', './' + os.path.dirname(f) + '/'], cwd='/repo', env=env, capture_output=True, text=True)
    print("repo tests:", "PASS" if r.returncode == 0 else "FAIL\n" + r.stdout[-800:] + r.stderr[-800:])
    for i in ids:
        r = subprocess.run(['/verif/bin/verif', 'check', i, '--tier', 'quick'], capture_output=True, text=True)
        lines = [l for l in r.stdout.splitlines() if l.startswith('VIOLATION') or l.startswith('  key=') or l.startswith(i + ' tier')]
        print(f"{i}: exit={r.returncode}"); print('\n'.join(l[:300] for l in lines[:12]))
        if r.returncode not in (0, 1): print(r.stderr[-1500:])
finally:
    open(p, 'w').write(orig)
